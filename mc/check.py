"""CLI: /venv/bin/python -m mc.check C01 [--tier quick|thorough]   (cwd=/verif)"""
import argparse
import importlib
import os
import sys


def main():
    ap = argparse.ArgumentParser()
    ap.add_argument("prop")
    ap.add_argument("--tier", default=os.environ.get("VERIF_TIER", "quick"))
    a = ap.parse_args()
    if os.environ.get("PYTHONHASHSEED") != "0" and not os.environ.get("VERIF_NO_REEXEC"):
        env = dict(os.environ, PYTHONHASHSEED="0", PYTHONDONTWRITEBYTECODE="1")
        os.execve(sys.executable, [sys.executable, "-m", "mc.check"] + sys.argv[1:], env)
    tier = a.tier if a.tier in ("quick", "thorough") else "quick"
    try:
        seed = int(os.environ.get("VERIF_SEED", "0"))
    except ValueError:
        seed = 0
    from mc import common

    common.bind_repo()
    try:
        mod = importlib.import_module("mc.checks." + a.prop.lower())
        rc = common.run_check(mod, tier, seed)
    except Exception as e:  # e.g. the library fails while the check builds its seed objects
        import json
        import traceback

        lib = common.library_frame(e)
        if lib is None:
            traceback.print_exc()
            print("HARNESS-ERROR property=%s %s" % (a.prop, type(e).__name__))
            sys.exit(2)
        rdir = os.path.join(common.OUT_DIR, "replays", a.prop)
        os.makedirs(rdir, exist_ok=True)
        path = os.path.join(rdir, "setup-exception.json")
        with open(path, "w") as f:
            json.dump({"property": a.prop, "signature": "%s|unexpected-exception|%s|%s" % (a.prop, type(e).__name__, lib),
                       "what": "the library raised while the check was building its programs", "detail": {"traceback": traceback.format_exc()[-3000:]},
                       "case": None}, f, indent=1)
        print("VIOLATION property=%s replay=%s" % (a.prop, path))
        print("  what: the library raised %s in %s while the check was building its (valid) programs" % (type(e).__name__, lib))
        rc = 1
    sys.exit(rc)


if __name__ == "__main__":
    main()
