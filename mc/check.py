"""CLI: /venv/bin/python -m mc.check C01 [--tier quick|thorough]   (cwd=/verif)"""
import argparse
import importlib
import os
import sys


def main():
    ap = argparse.ArgumentParser()
    ap.add_argument("prop")
    ap.add_argument("--tier", default=os.environ.get("VERIF_TIER", "quick"))
    a = ap.parse_args()
    if os.environ.get("PYTHONHASHSEED") != "0" and not os.environ.get("VERIF_NO_REEXEC"):
        env = dict(os.environ, PYTHONHASHSEED="0", PYTHONDONTWRITEBYTECODE="1")
        os.execve(sys.executable, [sys.executable, "-m", "mc.check"] + sys.argv[1:], env)
    tier = a.tier if a.tier in ("quick", "thorough") else "quick"
    try:
        seed = int(os.environ.get("VERIF_SEED", "0"))
    except ValueError:
        seed = 0
    from mc import common

    common.bind_repo()
    mod = importlib.import_module("mc.checks." + a.prop.lower())
    sys.exit(common.run_check(mod, tier, seed))


if __name__ == "__main__":
    main()
