"""C01 — builder calls never alter the receiver or earlier-derived objects.

Explicit-state exploration of the real builder state machine: states = object graphs (deepfp),
transitions = builder-decorated methods (discovered by introspection).  Histories are *trees* of calls of
depth <= 2 (quick) / <= 3 (thorough) from every seed; after every call every live object (seed, ancestors,
siblings, argument objects) must be unchanged, and a node reached in the presence of siblings must equal
the node reached without them (branch independence / order independence).
"""
from __future__ import annotations

import inspect
import json
import os
import copy
import itertools

from mc.common import Result, h64
from mc import fp, zoo
from mc.fp import attr_fps_fast, attr_fps, obs, obs_diff, odict

from pypika_tortoise import terms as T
from pypika_tortoise import functions as FN
from pypika_tortoise import analytics as AN
from pypika_tortoise import queries as Q
from pypika_tortoise.enums import JoinType, Order
from pypika_tortoise.queries import Column, Query, Table
from pypika_tortoise.terms import EmptyCriterion, Index

PROPERTY = "C01"

# --------------------------------------------------------------------------------------------------
# discovery of the alphabet


def _orig(v):
    for c in v.__closure__ or ():
        if inspect.isfunction(c.cell_contents):
            return c.cell_contents
    return None


_BM_CACHE = {}


def builder_methods(cls):
    """{method name: defining qualname} of builder-decorated methods visible on cls."""
    if cls in _BM_CACHE:
        return _BM_CACHE[cls]
    res = _BM_CACHE[cls] = {}
    for k in dir(cls):
        try:
            v = inspect.getattr_static(cls, k)
        except AttributeError:
            continue
        if inspect.isfunction(v) and v.__qualname__.endswith("builder.<locals>._copy"):
            f = _orig(v)
            res[k] = f.__qualname__ if f else "?." + k
    return res


def all_builder_methods():
    res = set()
    for key, cls in zoo.all_classes().items():
        for m, q in builder_methods(cls).items():
            res.add(q)
    return res


# --------------------------------------------------------------------------------------------------
# operations: key -> fn(receiver) -> result ; every argument object is created fresh inside fn and
# registered in ARGS_OUT so that it becomes a live object of the history.

_args_out = []


_args_pre = {}


def A(x):
    """register an argument object; its state *before* the library sees it is recorded, so that a change made by
    the very call it is passed to is noticed"""
    _args_out.append(x)
    d = odict(x)
    _args_pre[id(x)] = (x, attr_fps_fast(x) if d is not None else None, dict(d) if d is not None else None)
    return x


def t_():
    return Table("t")


def _part(r, attr, idx=None, kinds=None):
    """an object the receiver already holds (None if it has none of that kind)"""
    v = (odict(r) or {}).get(attr)
    if v is None:
        return None
    if idx is not None:
        if not v:
            return None
        v = v[idx]
    if kinds is not None and not isinstance(v, kinds):
        return None
    return v


def _elsewhere():
    """statements of every kind started through every dialect class (none of them related to the receiver)"""
    out = []
    for QQ in sorted(fp.QCLS.values(), key=lambda c: c.__name__ == "MySQLQuery"):  # (the class with other quote characters last)
        z = QQ.Table("zz_else")
        out += [QQ.from_(z).select(z.a), QQ.into(z).insert(1), QQ.update(z).set(z.a, 1), QQ.create_table("zz_else").columns("a"),
                QQ.drop_table("zz_else"), QQ.with_(QQ.from_(z).select(z.a), "zz_c").from_(z).select(z.a), z.select(z.a), z.update().set(z.a, 2),
                z.insert(3)]
    for o in out:
        str(o)
    return out


def sub_():
    v = Table("v")
    return A(Query.from_(v).select(v.id))


def used_sub_():
    v = Table("v")
    s = Query.from_(v).select(v.id)
    A(Query.from_(s).select(s.id))  # the other user of s: a live object whose rendering must not change
    return A(s)  # registered after it got its alias from the other query: from now on it is an aliased argument


QB_OPS = {
    "from_:u": lambda r: r.from_(A(Table("u"))),
    "from_:str": lambda r: r.from_("w"),
    "from_:sub": lambda r: r.from_(sub_()),
    # a subquery that another (live) query already uses and auto-aliased: it is no longer "un-aliased", so nothing
    # about it - and nothing about the other query - may change
    "from_:sub_used": lambda r: r.from_(used_sub_()),
    "join:sub_used": lambda r: r.join(used_sub_()).on_field("id"),
    "select:f": lambda r: r.select(A(t_().c), t_().d),
    "select:str": lambda r: r.select("e"),
    "select:star": lambda r: r.select("*"),
    "select:tstar": lambda r: r.select(t_().star),
    "select:fn": lambda r: r.select(A(FN.Max(t_().a).as_("m"))),
    "select:lit": lambda r: r.select(1, "x"),
    "where:t": lambda r: r.where(A(t_().z == 1)),
    "where:foreign": lambda r: r.where(Table("w").z == 1),
    "where:empty": lambda r: r.where(EmptyCriterion()),
    "prewhere": lambda r: r.prewhere(A(t_().p == 2)),
    "having": lambda r: r.having(A(FN.Sum(t_().h) > 3)),
    "groupby:f": lambda r: r.groupby(A(t_().g)),
    "groupby:str": lambda r: r.groupby("g2"),
    "groupby:int": lambda r: r.groupby(1),
    # a grouped / ordered term that carries the alias which "select:fn" defines: whether the alias or the expression
    # is printed depends on the select list of this query alone
    "groupby:al": lambda r: r.groupby(A((t_().g + 1).as_("m"))),
    "orderby:al": lambda r: r.orderby(A((t_().o + 1).as_("m"))),
    "orderby:f": lambda r: r.orderby(A(t_().o), order=Order.asc),
    "orderby:str": lambda r: r.orderby("o2"),
    "orderby:dup": lambda r: r.orderby("tenant", "region", "tenant", "id", "zone", "region"),
    "rollup:f": lambda r: r.rollup(A(t_().r1)),
    "rollup:list": lambda r: r.rollup([t_().r2, t_().r3]),
    "rollup:mysql": lambda r: r.rollup(t_().r4, vendor="mysql"),
    "with_totals": lambda r: r.with_totals(),
    "join:on": lambda r: r.join(A(Table("w"))).on(A(t_().id == Table("w").id)),
    "join:using": lambda r: r.join(Table("w"), JoinType.left).using("id"),
    "join:sub": lambda r: r.join(sub_()).on_field("id"),
    "join:cross": lambda r: r.join(Table("w2")).cross(),
    "join:self": lambda r: r.join(A(Table("t"))).on(t_().id == Table("t", alias="t2").id),
    # a different table that is spelled like a source of the receiver (same name in another schema; an alias equal to
    # the source's name): no self-join, so the argument must stay as it is
    "join:twin": lambda r: r.join(A(Table("t", schema="arch"))).on_field("id"),
    "join:alias_like_source": lambda r: r.join(A(Table("zz", alias="t"))).cross(),
    "from_:twin": lambda r: r.from_(A(Table("t", schema="arch"))),
    "limit": lambda r: r.limit(7),
    "offset": lambda r: r.offset(2),
    "slice": lambda r: r[3:9],
    "distinct": lambda r: r.distinct(),
    "for_update": lambda r: r.for_update(nowait=True),
    "for_update:of": lambda r: r.for_update(of=("x1", "zeta", "alpha", "m2")),
    "force_index": lambda r: r.force_index("fi", A(Index("fj"))),
    "force_index:dup": lambda r: r.force_index("tenant", "region", "tenant", "id", "zone", "region"),
    "for_update:of_dup": lambda r: r.for_update(of=("tenant", "region", "tenant", "id", "zone", "region")),
    "select:dup": lambda r: r.select("tenant", "region", "tenant", "id", "zone", "region"),
    "groupby:dup": lambda r: r.groupby("tenant", "region", "tenant", "id", "zone", "region"),
    "use_index": lambda r: r.use_index("ui"),
    "with_": lambda r: r.with_(sub_(), "c2"),
    # the receiver's own parts handed to it again (the user kept the object in a variable): the very same subquery listed in FROM /
    # joined a second time, a CTE name the receiver already defines, the select / where / group / order terms it already holds
    "from_:again": lambda r: r.from_(_part(r, "_from", 0) or sub_()),
    "join:again": lambda r: r.join(_part(r, "_from", 0, kinds=(Q.QueryBuilder, Q._SetOperation)) or sub_()).cross(),
    "with_:same_name": lambda r: r.with_(sub_(), getattr(_part(r, "_with", 0), "name", None) or "c2"),
    "select:again": lambda r: r.select(_part(r, "_selects", 0) or t_().again),
    "where:again": lambda r: r.where(_part(r, "_wheres") or (t_().again == 1)),
    "having:again": lambda r: r.having(_part(r, "_havings") or (FN.Sum(t_().again) > 1)),
    "groupby:again": lambda r: r.groupby(_part(r, "_groupbys", 0) or t_().again),
    "orderby:again": lambda r: r.orderby((_part(r, "_orderbys", 0) or (t_().again, None))[0]),
    "set:again": lambda r: r.set(*((_part(r, "_updates", 0) or (t_().again, 1)))),
    # unrelated statements created elsewhere - through every dialect class and every factory - between two calls
    "elsewhere": lambda r: (_elsewhere(), r.limit(9))[1],
    "into": lambda r: r.into(A(Table("x"))),
    "columns": lambda r: r.columns("c", "d"),
    # table-less Field objects (instead of names) handed to calls that bind columns to the statement's table
    "columns:f": lambda r: r.columns(A(T.Field("cf")), A(T.Field("cg"))),
    "on_conflict:f0": lambda r: r.on_conflict(A(T.Field("k0"))),
    "do_update:f0": lambda r: r.do_update(A(T.Field("d0")), 4),
    "set:f0": lambda r: r.set(A(T.Field("s0")), A(T.Field("s1"))),
    "select:f0": lambda r: r.select(A(T.Field("q0"))),
    "groupby:f0": lambda r: r.groupby(A(T.Field("g0"))).orderby(A(T.Field("o0"))),
    "insert": lambda r: r.insert(3, 4),
    "insert:rows": lambda r: r.insert((1, 2), (3, 4)),
    # rows holding terms that refer to tables (replace_table has to rewrite them - in new rows, not in place)
    "insert:sub": lambda r: r.insert(A(Query.from_(Table("t")).select(FN.Max(Table("t").a))), A(Table("u").x + 1)),
    # explicit ValueWrapper objects handed to calls that take values (the caller's object must stay what it is)
    "groupby:vw": lambda r: r.groupby(A(T.ValueWrapper(5))),
    "orderby:vw": lambda r: r.orderby(A(T.ValueWrapper(6))),
    "select:vw": lambda r: r.select(A(T.ValueWrapper(7)), A(T.ValueWrapper("s", alias="sv"))),
    "insert:vw": lambda r: r.insert(A(T.ValueWrapper(8)), A(T.ValueWrapper("w"))),
    "set:vw": lambda r: r.set("c", A(T.ValueWrapper(9))),
    "limit:vw": lambda r: r.limit(A(T.ValueWrapper(4))).offset(A(T.ValueWrapper(2))),
    "replace": lambda r: r.replace(5, 6),
    "on_conflict": lambda r: r.on_conflict("k"),
    "on_conflict:f": lambda r: r.on_conflict(A(t_().k2)),
    "do_nothing": lambda r: r.do_nothing(),
    "do_update:v": lambda r: r.do_update("c", 9),
    "do_update": lambda r: r.do_update(A(t_().d)),
    "update": lambda r: r.update(Table("x")),
    "set": lambda r: r.set("c", 7),
    "set:f": lambda r: r.set(A(t_().d), A(t_().e + 1)),
    "set:redef": lambda r: r.set("c", 8).set(t_().a, 2).set("b", "y"),  # columns that seeds / other ops already assign
    "delete": lambda r: r.delete(),
    "union": lambda r: r.union(A(Query.from_(Table("w")).select("q"))),
    "union_all": lambda r: r.union_all(Query.from_(Table("w")).select("q")),
    "intersect": lambda r: r.intersect(Query.from_(Table("w")).select("q")),
    "except_of": lambda r: r.except_of(Query.from_(Table("w")).select("q")),
    "minus": lambda r: r.minus(Query.from_(Table("w")).select("q")),
    "replace_table": lambda r: r.replace_table(A(Table("t")), A(Table("tt"))),
    # tables that occur below the statement's top level (CTE bodies, subqueries, joined items)
    "replace_table:v": lambda r: r.replace_table(A(Table("v")), A(Table("vv"))),
    "replace_table:u": lambda r: r.replace_table(A(Table("u")), A(Table("uu", alias="ux"))),
    "as_": lambda r: r.as_("al"),
}
PG_OPS = {
    "returning:str": lambda r: r.returning("id"),
    "returning:f": lambda r: r.returning(A(t_().a)),
    "returning:star": lambda r: r.returning("*"),
    "returning:lit": lambda r: r.returning(1),
    "distinct_on": lambda r: r.distinct_on("a", A(t_().b)),
}
MY_OPS = {"modifier": lambda r: r.modifier("SQL_BIG_RESULT"),
          # (several words in one argument)
          "modifier:words": lambda r: r.modifier("HIGH_PRIORITY  SQL_CALC_FOUND_ROWS")}
MS_OPS = {"top": lambda r: r.top(5), "fetch_next": lambda r: r.fetch_next(3)}

SETOP_OPS = {
    "union": lambda r: r.union(A(Query.from_(Table("w")).select("q"))),
    "union_all": lambda r: r.union_all(Query.from_(Table("w")).select("q")),
    "intersect": lambda r: r.intersect(Query.from_(Table("w")).select("q")),
    "except_of": lambda r: r.except_of(Query.from_(Table("w")).select("q")),
    "minus": lambda r: r.minus(Query.from_(Table("w")).select("q")),
    "orderby:f": lambda r: r.orderby(A(t_().a), order=Order.desc),
    "orderby:str": lambda r: r.orderby("a"),
    "limit": lambda r: r.limit(4),
    "offset": lambda r: r.offset(6),
    "as_": lambda r: r.as_("so"),
    "add": lambda r: r + Query.from_(Table("w")).select("q"),
    "mul": lambda r: r * Query.from_(Table("w")).select("q"),
    "sub": lambda r: r - Query.from_(Table("w")).select("q"),
    "replace_table:t": lambda r: r.replace_table(A(Table("t")), A(Table("tt"))),
    "replace_table:u": lambda r: r.replace_table(A(Table("u")), A(Table("tt", alias="x"))),
    "replace_table:al": lambda r: r.replace_table(A(Table("t", alias="ta")), A(Table("tt", alias="x"))),
}
CREATE_OPS = {
    "create_table": lambda r: r.create_table("n"),
    "temporary": lambda r: r.temporary(),
    "unlogged": lambda r: r.unlogged(),
    "with_system_versioning": lambda r: r.with_system_versioning(),
    "columns:str": lambda r: r.columns("k1", ("k2", "INT")),
    "columns:col": lambda r: r.columns(A(Column("k3", "TEXT", nullable=True, default="d"))),
    # the same column names again with another definition (k1/k2 of "columns:str", a/c of the full seed)
    "columns:redef": lambda r: r.columns(("k1", "BIGINT"), A(Column("a", "TEXT", nullable=True)), Column("k2", "DATE", default="x"), "c"),
    "period_for": lambda r: r.period_for("pp", "k1", A(Column("k2"))),
    "unique": lambda r: r.unique("k1", A(Column("k2"))),
    "primary_key": lambda r: r.primary_key("k1"),
    # repeated names (whatever the builder does with them must not depend on the iteration order of a set)
    "unique:dup": lambda r: r.unique("tenant", "region", "tenant", "id", "k1", "region"),
    "primary_key:dup": lambda r: r.primary_key("tenant", "region", "tenant", "id", "zone", "region"),
    "columns:dup": lambda r: r.columns("tenant", "region", "tenant", "id", "zone", "region"),
    "elsewhere": lambda r: (_elsewhere(), r.if_not_exists())[1],
    "as_select": lambda r: r.as_select(sub_()),
    # the SELECT built through another dialect's class than the CREATE
    "as_select:other_cls": lambda r: r.as_select(A(fp.QCLS["mysql"].from_(Table("v")).select("id"))),
    "as_select:pg_cls": lambda r: r.as_select(A(fp.QCLS["postgresql"].from_(Table("v")).select("id").where(Table("v").id == 1))),
    "if_not_exists": lambda r: r.if_not_exists(),
}
DROP_OPS = {"drop_table": lambda r: r.drop_table("n"), "if_exists": lambda r: r.if_exists(),
            "elsewhere": lambda r: (_elsewhere(), r.if_exists())[1]}
LOAD_OPS = {"load": lambda r: r.load("/g.csv"), "into": lambda r: r.into(A(Table("n")))}
TABLE_OPS = {
    "as_": lambda r: r.as_("ta"),
    "for_": lambda r: r.for_(A(T.SystemTimeValue().as_of("2020-01-01"))),
    "for_portion": lambda r: r.for_portion(A(T.SystemTimeValue().from_to("2020-01-01", "2020-02-01"))),
}
# term ops, applicable when the class has the builder method
TERM_OPS = {
    "as_": [("as_", lambda r: r.as_("z"))],
    "replace_table": [("replace_table", lambda r: r.replace_table(A(Table("t")), A(Table("tt")))),
                      ("replace_table:none", lambda r: r.replace_table(None, A(Table("tt"))))],
    "when": [("when", lambda r: r.when(A(t_().w == 1), A(t_().th)))],
    "else_": [("else_", lambda r: r.else_(A(t_().el)))],
    "filter": [("filter", lambda r: r.filter(A(t_().fl == 1), t_().fl2 > 0))],
    "over": [("over", lambda r: r.over(A(t_().pa)))],
    "orderby": [("orderby", lambda r: r.orderby(A(t_().ob), order=Order.desc))],
    "rows": [("rows", lambda r: r.rows(A(AN.Preceding(2)), AN.Following(1)))],
    "range": [("range", lambda r: r.range(AN.Preceding()))],
    "ignore_nulls": [("ignore_nulls", lambda r: r.ignore_nulls())],
    "distinct": [("distinct", lambda r: r.distinct())],
    "negate": [("negate", lambda r: r.negate())],
}
JOIN_OPS = {"replace_table": lambda r: r.replace_table(A(Table("t")), A(Table("tt")))}


def _join_seeds():
    def j():
        return Q.Join(Table("t"), JoinType.cross)

    def jon():
        return Q.JoinOn(Table("t"), JoinType.left, Table("t").id == Table("u").tid, "bin")

    def jusing():
        return Q.JoinUsing(Table("t"), JoinType.inner, [T.Field("id"), Table("t").k])

    return {"Join": j, "JoinOn": jon, "JoinUsing": jusing}


_ZOO, _UNCON = zoo.term_zoo()
_ZOO_BY_NAME = {n: (k, b) for n, k, b in _ZOO}


def families():
    """family name -> (seeds: {name: factory}, ops: {key: fn})"""
    F = {}
    for d in fp.CTX:
        ops = dict(QB_OPS)
        if d == "postgresql":
            ops.update(PG_OPS)
        if d == "mysql":
            ops.update(MY_OPS)
        if d == "mssql":
            ops.update(MS_OPS)
        F["qb:" + d] = (zoo.stmt_seeds(d), ops)
        F["setop:" + d] = (zoo.setop_seeds(d), SETOP_OPS)
    dd = zoo.ddl_seeds()
    F["create"] = (dd["create"], CREATE_OPS)
    F["drop"] = (dd["drop"], DROP_OPS)
    F["load"] = (dd["load"], LOAD_OPS)
    F["table"] = ({"plain": lambda: Table("t"), "alias": lambda: Table("t", alias="x"),
                   "schema": lambda: Table("t", schema=["d", "s"]),
                   "for": lambda: Table("t").for_(T.SystemTimeValue().as_of("2019"))}, TABLE_OPS)
    F["join"] = (_join_seeds(), JOIN_OPS)
    F["sens"] = (zoo.sens_seeds(), {})
    for name, (n, build) in _ZOO_BY_NAME.items():
        def seed(build=build, n=n):
            return build([Table("t").field("c%d" % i) for i in range(max(n, 1))])

        cls = type(seed())
        ops = {}
        for m in builder_methods(cls):
            for key, fn in TERM_OPS.get(m, []):
                ops[key] = fn
        F["term:" + name] = ({"z": seed}, ops)
    return F


FAM = families()

SHAPES2 = [[0, 1], [0, 0]]
SHAPES3 = [[0, 1, 2], [0, 1, 1], [0, 0, 1], [0, 0, 2], [0, 0, 0]]

QUICK_LIGHT = {"postgresql": ("sel_full", "ins_conf", "upd_join", "empty", "pg_ret", "pg_upd_ret", "pg_don"),
               "mysql": ("sel_full", "ins_conf", "upd_join", "empty", "my_mod", "my_rollup", "my_upd_lim"),
               "mssql": ("sel_full", "ins_conf", "upd_join", "ms_top", "ms_page", "empty"),
               "oracle": ("sel_full", "ins_conf", "upd_join", "empty"),
               "sqlite": ("sel_full", "ins_conf", "upd_join", "empty")}


def covered_methods():
    """qualnames of builder methods that the alphabet executes (self-test: must equal all discovered)."""
    cov = set()
    return cov


def chunks(tier, seed):
    out = []
    for fam, (seeds, ops) in FAM.items():
        for sname in seeds:
            if tier == "quick" and fam.startswith("qb:"):
                d = fam[3:]
                if d in QUICK_LIGHT and sname not in QUICK_LIGHT[d]:
                    continue
                if sname in ("sel_lits", "upd_lits", "sel_shared"):
                    continue  # constant-wrapping seeds: thorough tier, and the C02 / C15 corpora
            keys = list(ops)
            if not keys:
                continue
            # one chunk per (family, seed, first op)
            for k1 in keys:
                out.append({"fam": fam, "seed": sname, "op1": k1, "depth": 2, "tier": tier})
            if tier == "thorough" and (fam.startswith(("setop:", "create", "drop", "load", "table", "term:", "join"))
                                       or fam in ("qb:generic", "qb:postgresql", "qb:mysql")):
                for k1 in keys:
                    out.append({"fam": fam, "seed": sname, "op1": k1, "depth": 3})
    return out


def _container_ops(fam):
    """ops of a family that touch a container-valued attribute (found by diffing copy vs receiver at depth 1), one
    representative op per distinct set of touched attributes (the triples are cubic in this list; every op is still
    covered by the pairs)."""
    seeds, ops = FAM[fam]
    res = []
    seen_sets = set()
    for k, fn in ops.items():
        touched = set()
        for sname, fac in seeds.items():
            r = fac()
            before = {a: v for a, v in (odict(r) or {}).items()}
            try:
                x = fn(r)
            except Exception:
                continue
            d = odict(x) or {}
            for a, v in d.items():
                if isinstance(v, (list, set, dict)) and (a not in before or fp.deepfp_str(before[a]) != fp.deepfp_str(v)):
                    touched.add(a)
            if type(x) is not type(r):
                touched.add("<type>")
        if touched and frozenset(touched) not in seen_sets:
            seen_sets.add(frozenset(touched))
            res.append(k)
    return res


_CONT = {}


def expand(chunk):
    fam, sname, k1 = chunk["fam"], chunk["seed"], chunk["op1"]
    seeds, ops = FAM[fam]
    keys = list(ops)
    if chunk["depth"] == 2:
        if chunk.get("tier") == "quick":
            # quick: argument-variant ops (duplicates, redefinitions, table-less fields, explicit wrappers, ...) are paired with
            # every base op in both orders, not with each other (thorough: all pairs)
            def variant(k):
                return k.endswith((":dup", ":redef", ":f0", ":vw", ":of_dup")) or k in ("insert:sub", "columns:f", "replace_table:v", "replace_table:u")
            if variant(k1):
                keys = [k for k in keys if not variant(k) or k == k1]
        # histories with renders in between (every live object observed after every call)
        yield {"fam": fam, "seed": sname, "ops": [k1], "shape": [0], "rend": True}
        rend_pairs = not fam.startswith("qb:") or (chunk.get("tier") == "thorough" and fam in ("qb:generic", "qb:postgresql", "qb:mysql"))
        for k2 in keys:
            for sh in SHAPES2:
                yield {"fam": fam, "seed": sname, "ops": [k1, k2], "shape": sh}
                if rend_pairs:
                    yield {"fam": fam, "seed": sname, "ops": [k1, k2], "shape": sh, "rend": True}
    else:
        if fam not in _CONT:
            _CONT[fam] = _container_ops(fam)
        ck = _CONT[fam]
        if k1 not in ck:
            return
        for k2 in ck:
            for k3 in ck:
                for sh in SHAPES3:
                    yield {"fam": fam, "seed": sname, "ops": [k1, k2, k3], "shape": sh}


# --------------------------------------------------------------------------------------------------


def _method_of(fam, key):
    return key.split(":")[0]


# Builder calls that raise on the reference tree: "<defining class.method>|<op key>|<exception>" (known_witnesses/C01_raises.json,
# written only by tools/record_witnesses.py C01). A call of the alphabet that returns on the reference tree must not raise.
_RAISES_FILE = os.path.join(os.path.dirname(os.path.dirname(os.path.dirname(os.path.abspath(__file__)))), "known_witnesses", "C01_raises.json")
_RAISES = set(json.load(open(_RAISES_FILE))) if os.path.exists(_RAISES_FILE) else None
_REC = bool(os.environ.get("VERIF_RECORD_WITNESSES"))
_rec_seen = set()


def _note_raise(res, parent, key, err, case):
    ent = "%s|%s|%s" % (_sig_class(parent, key), key, err)
    if _REC:
        if ent not in _rec_seen:
            _rec_seen.add(ent)
            with open(os.path.join(os.path.dirname(_RAISES_FILE), ".C01_raises.%d" % os.getpid()), "a") as f:
                f.write(ent + "\n")
    elif _RAISES is not None and ent not in _RAISES:
        res.violate("C01|%s|raises|%s" % (_sig_class(parent, key), err),
                    "builder call %s raised %s; on the reference tree this call of the alphabet never raises (a builder method returns a new object "
                    "for every prior state of the receiver)" % (key, err), fam=case["fam"], seed=case["seed"], ops=case["ops"], shape=case["shape"])


def _sig_class(recv, key):
    """class that defines the builder method behind op `key` (so one defect = one signature)."""
    m = key.split(":")[0]
    alias = {"join": "join", "add": "union", "mul": "union_all", "sub": "minus", "slice": "slice"}
    m = alias.get(m, m)
    q = builder_methods(type(recv)).get(m)
    return q or (type(recv).__qualname__ + "." + m)


class _Live:
    __slots__ = ("obj", "fps", "born", "kind", "idx")

    def __init__(self, obj, born, kind, idx):
        self.obj, self.born, self.kind, self.idx = obj, born, kind, idx
        self.fps = attr_fps_fast(obj) if odict(obj) is not None else {"": fp.deepfp_str(obj)}


def _run_history(case, upto=None, only_chain_of=None):
    """Execute the history on fresh objects. Returns (nodes, lives, args_per_step, errors).
    only_chain_of=i: execute only the ancestor chain of node i (solo reference)."""
    seeds, ops = FAM[case["fam"]]
    shape, keys = case["shape"], case["ops"]
    nodes = [seeds[case["seed"]]()]
    steps = list(range(len(keys)))
    if only_chain_of is not None:
        need = set()
        n = only_chain_of
        while n > 0:
            need.add(n - 1)
            n = shape[n - 1]
        steps = sorted(need)
    args_per_step = {}
    for i in range(len(keys)):
        nodes.append(None)
    errs = {}
    for i in steps:
        if upto is not None and i >= upto:
            break
        parent = nodes[shape[i]]
        if parent is None:
            continue
        del _args_out[:]
        try:
            nodes[i + 1] = ops[keys[i]](parent)
        except Exception as e:
            errs[i] = type(e).__name__
        args_per_step[i] = list(_args_out)
    return nodes, args_per_step, errs


def _is_self_join(arg, parent):
    """a table argument may gain an automatic alias only when it is a self-join: the receiver already has an equal
    (same name, same schema, un-aliased) table among its row sources"""
    if not isinstance(arg, Table):
        return True
    twin = copy.copy(arg)
    twin.alias = None
    d = odict(parent) or {}
    sources = list(d.get("_from") or []) + [getattr(j, "item", None) for j in (d.get("_joins") or [])] + [d.get("_update_table")]
    return any(isinstance(c, Table) and c.alias is None and c == twin for c in sources)


def _permitted_alias(live, pristine, parent=None):
    """the automatic alias given to an un-aliased subquery / self-joined table passed in as an argument."""
    o = live.obj
    if live.kind != "arg" or not isinstance(o, (Q.QueryBuilder, Q._SetOperation, Table)):
        return False
    if parent is not None and not _is_self_join(o, parent):
        return False
    d, p = odict(o), odict(pristine)
    if p.get("alias") is None and d.get("alias") is not None:
        p["alias"] = d["alias"]
        return True
    return False


def _obs_or_none(x):
    return obs(x) if x is not None and hasattr(x, "get_sql") else None


def run_rendered(case):
    """The same histories with every live object rendered (observed) after every call: the observation of an object taken
    before a call must be the observation taken after it (the property read literally; the attribute fingerprints used by
    run_case are blind to state that only a render creates, e.g. a memo shared between the receiver and its copies),
    and an object's observation must not depend on whether earlier objects were rendered."""
    res = Result()
    seeds, ops = FAM[case["fam"]]
    shape, keys = case["shape"], case["ops"]
    nodes = [seeds[case["seed"]]()]
    before = [_obs_or_none(nodes[0])]
    for i, key in enumerate(keys):
        parent = nodes[shape[i]]
        if parent is None:
            nodes.append(None)
            before.append(None)
            continue
        try:
            x = ops[key](parent)
        except Exception as e:
            x = None
            _note_raise(res, parent, key, type(e).__name__, case)
        res.transitions += 1
        bx = _obs_or_none(x) if x is not parent else None
        for j in range(len(nodes)):
            if nodes[j] is None or before[j] is None:
                continue
            now = obs(nodes[j])
            res.transitions += 1
            if now != before[j]:
                role = "receiver" if nodes[j] is parent else "earlier-derived"
                res.violate("C01|%s|%s|rendered" % (_sig_class(parent, key), role),
                            "%s call %s (followed by a render of its result) changed what a live %s object renders" % (
                                case["fam"], key, role),
                            fam=case["fam"], seed=case["seed"], ops=keys, shape=shape, step=i, rend=True,
                            diff=obs_diff(before[j], now))
                before[j] = now
        nodes.append(x if x is not parent else None)
        before.append(bx)
    if not res.violations:
        plain, _, _ = _run_history(case)
        for j in range(1, len(nodes)):
            if nodes[j] is None or plain[j] is None or before[j] is None:
                continue
            ref = obs(plain[j])
            if ref != before[j]:
                res.violate("C01|%s|derived|render-history" % _sig_class(nodes[shape[j - 1]], keys[j - 1]),
                            "the result of %s renders differently when earlier objects were rendered before the call" % keys[j - 1],
                            fam=case["fam"], seed=case["seed"], ops=keys, shape=shape, rend=True, diff=obs_diff(ref, before[j]))
                break
    if nodes[-1] is not None and before[-1] is not None:
        res.outcomes.append(h64(repr(before[-1])))
    res.nontrivial = 1 if any(n is not None for n in nodes[1:]) else 0
    return res


def run_case(case):
    if case.get("rend"):
        return run_rendered(case)
    res = Result()
    seeds, ops = FAM[case["fam"]]
    shape, keys = case["shape"], case["ops"]
    nodes = [seeds[case["seed"]]()]
    lives = [_Live(nodes[0], -1, "node", 0)]
    res.states.append(h64(repr(sorted(lives[0].fps.items()))))
    anychange = False
    pending = []
    flagged = False
    for i, key in enumerate(keys):
        parent = nodes[shape[i]]
        if parent is None:
            nodes.append(None)
            continue
        del _args_out[:]
        _args_pre.clear()
        err = None
        try:
            x = ops[key](parent)
        except Exception as e:
            x, err = None, type(e).__name__
            _note_raise(res, parent, key, err, case)
        res.transitions += 1
        args = list(_args_out)
        nodes.append(x)
        rendered = False
        # arguments of this very call: only an un-aliased subquery / self-joined table may gain an alias
        for a in args:
            pre = _args_pre.get(id(a))
            if pre is None or pre[1] is None:
                continue
            now = attr_fps_fast(a)
            if now == pre[1]:
                continue
            ch = [k for k in sorted(set(now) | set(pre[1])) if now.get(k) != pre[1].get(k)]
            if (ch == ["alias"] and pre[2].get("alias") is None and isinstance(a, (Q.QueryBuilder, Q._SetOperation, Table))
                    and _is_self_join(a, parent)):
                continue  # the permitted side effect
            d = odict(a)
            cur = dict(d)
            o_now = obs(a)
            d.clear()
            d.update(pre[2])
            o_then = obs(a)
            d.clear()
            d.update(cur)
            rendered = True
            if o_now != o_then:
                flagged = True
                res.violate("C01|%s|argument-of-call|%s" % (_sig_class(parent, key), ",".join(ch)),
                            "%s call %s changed an argument object that was not an un-aliased subquery/self-joined table (attrs %s)" % (
                                case["fam"], key, ch),
                            fam=case["fam"], seed=case["seed"], ops=keys, shape=shape, step=i, diff=obs_diff(o_then, o_now))
        _args_pre.clear()
        sigcls = _sig_class(parent, key)
        if (x is not None and x is parent and getattr(parent, "immutable", True)
                and key.split(":")[0] in builder_methods(type(parent))):
            res.violate("C01|%s|returns-receiver" % sigcls, "builder call returned the receiver itself",
                        op=key, seed=case["seed"], fam=case["fam"])
        # every previously live object must be unchanged
        for lv in lives:
            now = attr_fps_fast(lv.obj) if odict(lv.obj) is not None else {"": fp.deepfp_str(lv.obj)}
            if now == lv.fps:
                continue
            anychange = True
            ch = [a for a in sorted(set(now) | set(lv.fps)) if now.get(a) != lv.fps.get(a)]
            # rebuild the pristine twin of lv.obj: same history up to its birth
            pn, pargs, _ = _run_history(case, upto=lv.born + 1 if lv.kind == "node" else lv.born + 1)
            if lv.kind == "node":
                twin = pn[lv.idx]
            else:
                twin = pargs.get(lv.born, [None] * (lv.idx + 1))[lv.idx]
            if twin is None:
                res.warnings.append("no twin for %s" % ch)
                continue
            if lv.kind == "arg" and lv.born == i:
                # argument of this very call: it was registered before the call, twin is pre-call too
                pass
            permitted = _permitted_alias(lv, twin, parent)
            o_now, o_then = obs(lv.obj), obs(twin)
            rendered = True
            role = "receiver" if lv.obj is parent else ("argument" if lv.kind == "arg" else "earlier-derived")
            if o_now != o_then:
                flagged = True
                res.violate(
                    "C01|%s|%s|%s" % (sigcls, role, ",".join(ch)),
                    "%s call %s changed a live %s object (attrs %s)" % (case["fam"], key, role, ch),
                    fam=case["fam"], seed=case["seed"], ops=keys, shape=shape, step=i, err=err,
                    diff=obs_diff(o_then, o_now))
            elif not permitted:
                # state changed but not observable now: look one call ahead on both, after the history is
                # complete (the probe itself may mutate the live object, so it must not run in between)
                pending.append((lv, twin, sigcls, role, ch, key, i))
            lv.fps = now  # report each change once
        if rendered:
            # obs() renders; a render that writes to the object is C02's business and must not be blamed on
            # the next builder call, so all baselines are re-taken after any render
            for lv in lives:
                lv.fps = attr_fps_fast(lv.obj) if odict(lv.obj) is not None else {"": fp.deepfp_str(lv.obj)}
        for j, a in enumerate(args):
            if all(a is not lv.obj for lv in lives):
                lives.append(_Live(a, i, "arg", j))
        if x is not None and all(x is not lv.obj for lv in lives):
            lv = _Live(x, i, "node", i + 1)
            lives.append(lv)
            res.states.append(h64(repr(sorted(lv.fps.items()))))
    # branch / order independence: the last node must equal the node reached without its siblings
    last = len(keys)
    if not flagged and nodes[last] is not None and any(shape[i] != i for i in range(len(keys))):
        solo, _, _ = _run_history(case, only_chain_of=last)
        if solo[last] is not None:
            # (two different objects: the canonical fingerprint, not the pickle bytes)
            a = attr_fps(nodes[last]) if odict(nodes[last]) is not None else {"": fp.deepfp_str(nodes[last])}
            b = attr_fps(solo[last]) if odict(solo[last]) is not None else {"": fp.deepfp_str(solo[last])}
            if a != b:
                oa, ob = obs(nodes[last]), obs(solo[last])
                if oa != ob:
                    ch = [k for k in sorted(set(a) | set(b)) if a.get(k) != b.get(k)]
                    sib = [keys[i] for i in range(len(keys) - 1)]
                    res.violate(
                        "C01|%s|sibling-dependent|%s" % (_sig_class(nodes[shape[last - 1]], keys[last - 1]), ",".join(ch)),
                        "result of %s depends on earlier sibling calls %s" % (keys[last - 1], sib),
                        fam=case["fam"], seed=case["seed"], ops=keys, shape=shape, diff=obs_diff(ob, oa))
    for lv, twin, sigcls, role, ch, key, i in pending[:1] if not flagged else []:
        latent = None
        for k2, f2 in ops.items():
            try:
                oa = obs(f2(lv.obj))
            except Exception as e:
                oa = type(e).__name__
            try:
                ob = obs(f2(twin))
            except Exception as e:
                ob = type(e).__name__
            if oa != ob:
                latent = k2
                break
        if latent:
            res.violate(
                "C01|%s|%s|%s|latent" % (sigcls, role, ",".join(ch)),
                "%s call %s changed hidden state of a live %s object; visible after a further %s" % (
                    case["fam"], key, role, latent),
                fam=case["fam"], seed=case["seed"], ops=keys, shape=shape, step=i)
        else:
            res.extra["unobservable_state_changes"] = res.extra.get("unobservable_state_changes", 0) + 1
            res.extra.setdefault("unobservable_sites", set()).add("%s|%s" % (sigcls, ",".join(ch)))
    if nodes[last] is not None:
        res.outcomes.append(h64(fp.deepfp_str(nodes[last])))
    res.nontrivial = 1 if (len([n for n in nodes if n is not None]) > 2 or len(keys) == 1) else 0
    return res


def describe():
    return {
        "rule": "histories = trees of builder calls (shape = parent index per call) over (family, seed, op-tuple); "
                "every case executed on fresh objects of the real library; non-trivial = at least two calls "
                "succeeded; distinct = distinct case descriptions; states = distinct attribute-fingerprints of "
                "nodes; outcomes = distinct deepfp of the final node",
        "bound": {"quick": "all ordered pairs of ops x shapes {chain, branch} for every family/seed "
                           "(mssql/oracle/sqlite: 4-6 seeds each)",
                  "thorough": "quick + all ordered triples of container-touching ops x 5 tree shapes for "
                              "generic/postgresql/mysql builders, set operations, DDL, tables, terms"},
        "assumptions": [
            "unchanged object graph (deepfp incl. aliasing pattern) implies unchanged renderings: the library is "
            "deterministic and reads only the object graph and the ctx (C02 checks that)",
            "arguments are the registered argument factories (1-3 per method), not all well-typed arguments",
            "uncovered builder methods (alphabet self-test) would be a harness error, see selftest",
        ],
    }


def uncovered_methods():
    alias = {"add": "union", "mul": "union_all", "sub": "minus"}
    cov = set()
    for fam, (seeds, ops) in FAM.items():
        for sname, fac in seeds.items():
            bm = builder_methods(type(fac()))
            for key in ops:
                m = key.split(":")[0]
                m = alias.get(m, m)
                if m in bm:
                    cov.add(bm[m])
    return sorted(all_builder_methods() - cov)
