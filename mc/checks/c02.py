"""C02 — rendering is a pure, repeatable, process-independent function.

(a) render histories: explicit-state exploration where transitions are render operations; every transition
    must be a self-loop on the object graph and its output must equal the output on a freshly built object;
    all ordered pairs of render ops on the statement seeds.
(b) schedules: two real threads render one shared object under a controlled scheduler; every interleaving
    with <= 1 preemption (thorough: 2) at line granularity is executed.
(c) configurations: all iteration orders of attribute-held sets; subprocess sweep over PYTHONHASHSEED.
"""
from __future__ import annotations

import hashlib
import itertools
import json
import os
import subprocess
import sys

from mc.common import Result, h64, REPO, VERIF_DIR
from mc import fp, zoo, sched
from mc.fp import CTX, deepfp_str, obs, obs_diff, odict, vrepr
from mc.checks import c01

from pypika_tortoise.terms import Parameterizer, Node

PROPERTY = "C02"

# --------------------------------------------------------------------------------------------------
# corpus: every seed of every C01 family and each of its depth-1 successors


def _mutable_seeds(d):
    """statements of builders created with immutable=False (builder calls work in place; rendering still must not write)"""
    from pypika_tortoise import Table
    from pypika_tortoise import functions as FN

    QQ = fp.QCLS[d]

    def tabs():
        return Table("t"), Table("u")

    def upd_join():
        t, u = tabs()
        return QQ.update(t, immutable=False).join(u).on(t.id == u.tid).set(t.a, u.x).where(u.y > 1)

    def sel():
        t, u = tabs()
        return QQ.from_(t, immutable=False).join(u).on(t.id == u.tid).select(t.a, FN.Count(u.x)).where(t.b.isin([1, 2])).groupby(t.a).orderby(t.a).limit(3)

    def ins():
        t, u = tabs()
        return QQ.into(t, immutable=False).columns("a", "b").insert(1, "x").on_conflict("a").do_update("b", 5)

    def upd_from():
        t, u = tabs()
        return QQ.update(t, immutable=False).from_(u).set(t.a, u.x).where(t.id == u.tid)

    return {"upd_join": upd_join, "sel": sel, "ins": ins, "upd_from": upd_from}


_EXTRA_FAM = {"mut:" + d: (_mutable_seeds(d), {}) for d in CTX}


def _fam(name):
    return _EXTRA_FAM[name] if name in _EXTRA_FAM else c01.FAM[name]


def corpus_keys(tier):
    keys = []
    for fam, seeds_ops in _EXTRA_FAM.items():
        for sname in seeds_ops[0]:
            keys.append([fam, sname, None])
    for fam, (seeds, ops) in c01.FAM.items():
        for sname in seeds:
            keys.append([fam, sname, None])
            if tier == "quick" and sname in ("sel_lits", "upd_lits", "sel_shared"):
                continue  # content seeds: their depth-1 successors only in the thorough tier
            for op in ops:
                keys.append([fam, sname, op])
    return keys


def build(key):
    fam, sname, op = key
    seeds, ops = _fam(fam)
    o = seeds[sname]()
    if op is not None:
        try:
            o = ops[op](o)
        except Exception:
            return None
    return o


# --------------------------------------------------------------------------------------------------
# render operations


def _r_get(d):
    return lambda o: fp.render(o, CTX[d])


def _r_par(d):
    def f(o):
        s, v = fp.render_param(o, CTX[d])
        return (s, vrepr(v))

    return f


def _safe(fn):
    def g(o):
        try:
            return fn(o)
        except Exception as e:
            return "!" + type(e).__name__

    return g


def _eq_other(o):
    other = zoo.Table("zz") if not isinstance(o, zoo.Table) else zoo.Table("yy")
    r = o == other
    return fp.render(r, CTX["generic"]) if hasattr(r, "get_sql") else r


def _eq_self(o):
    r = o == o
    return fp.render(r, CTX["generic"]) if hasattr(r, "get_sql") else r


def _gps(o):
    s, v = o.get_parameterized_sql()
    return (s, vrepr(v))


def _fields(o):
    return sorted(fp.render(f, CTX["generic"].copy(with_namespace=True, with_alias=True)) for f in o.fields_())


def _tables(o):
    return sorted(str(t) for t in o.tables_)


def _noctx(o):
    import inspect

    sig = inspect.signature(o.get_sql)
    p = list(sig.parameters.values())
    if p and p[0].default is not inspect.Parameter.empty:
        return o.get_sql()
    return o.get_sql(None) if type(o).__name__ == "CreateQueryBuilder" else "n/a"


import re as _re


def _repr(o):
    return _re.sub(r" at 0x[0-9a-f]+", "", repr(o))  # default object repr carries the address


def _str(o):
    return _re.sub(r" at 0x[0-9a-f]+", "", str(o))


def _hash(o):
    if type(o).__hash__ is object.__hash__:
        return "identity-hash"  # not defined by the library: identity, differs between equal fresh objects
    return hash(o)


ROPS = {"str": _safe(_str), "repr": _safe(_repr), "noctx": _safe(_noctx)}
for _d in CTX:
    ROPS["i:" + _d] = _r_get(_d)
for _d in CTX:
    ROPS["p:" + _d] = _r_par(_d)
def _gps_ctx(d):
    def f(o):
        # get_parameterized_sql with the caller's context (which carries no parameterizer): a fresh parameter list every time
        if not callable(getattr(type(o), "get_parameterized_sql", None)):
            return "n/a"
        s_, v_ = o.get_parameterized_sql(CTX[d])
        return (s_, vrepr(v_))

    return _safe(f)


ROPS["gpsctx:postgresql"] = _gps_ctx("postgresql")
ROPS.update({"gps": _safe(_gps), "hash": _safe(_hash), "eq_self": _safe(_eq_self), "eq_other": _safe(_eq_other),
             "fields": _safe(_fields), "tables": _safe(_tables)})
RNAMES = list(ROPS)


def opclass(r):
    return r.split(":")[0]


# --------------------------------------------------------------------------------------------------
# module-global state fingerprint (write set of renders outside the object)


def globals_fp():
    import types

    out = []
    for M in zoo.live_modules():
        for n, v in sorted(vars(M).items()):
            if n.startswith("__"):
                continue
            if isinstance(v, (types.ModuleType, types.FunctionType, type)):
                if isinstance(v, type) and v.__module__ == M.__name__:
                    for a, x in sorted(vars(v).items()):
                        if isinstance(x, (list, dict, set)) and not a.startswith("__"):
                            out.append("%s.%s.%s=%s" % (M.__name__, n, a, deepfp_str(x)))
                continue
            if isinstance(v, (list, dict, set)) or odict(v) is not None:
                try:
                    out.append("%s.%s=%s" % (M.__name__, n, deepfp_str(v)))
                except Exception:
                    pass
    return h64("\n".join(out))


# --------------------------------------------------------------------------------------------------


def chunks(tier, seed):
    _zygote_start()  # in the main process, before the worker pool is forked and before anything is rendered
    keys = corpus_keys(tier)
    out = []
    B = 40
    for i in range(0, len(keys), B):
        out.append({"kind": "hist", "keys": keys[i:i + B]})
        out.append({"kind": "cross", "keys": keys[i:i + B]})
    seedkeys = [k for k in keys if k[2] is None]
    if tier == "quick":
        seedkeys = [k for k in seedkeys if not k[0].startswith("term:") or k[0] in (
            "term:Case", "term:Not", "term:QueryBuilder", "term:_SetOperation", "term:AnalyticFunction",
            "term:ContainsCriterion.sub", "term:Array", "term:JSON")]
    for k in seedkeys:
        out.append({"kind": "pairs", "key": k})
    for sk in sched_corpus(tier):
        out.append({"kind": "sched", **sk})
    hs = list(range(1, 8)) if tier == "quick" else list(range(1, 64)) + [1000 + (seed * 7919 + i) % 100000 for i in range(4)]
    for k in hs:
        out.append({"kind": "hashseed", "k": k})
    out.append({"kind": "setorder"})
    for i, sk in enumerate(sched_corpus("quick")):
        if tier == "thorough" or i % 6 == 0:  # the line-by-line write monitor is evidence (write set), not an oracle
            out.append({"kind": "writemon", "tier": tier, "index": i})
    # long work units first (the pool hands them out in order): better load balance, same enumeration
    rank = {"hashseed": 0, "sched": 1, "writemon": 2, "setorder": 3, "hist": 4, "cross": 5, "pairs": 6}
    out.sort(key=lambda c: rank[c["kind"]])
    return out


def sched_corpus(tier):
    res = []
    small = ["upd_join", "sel_star", "ins_conf", "dele", "sel_rollup"]
    big = ["sel_full", "sel_nested", "ins_sel", "upd_from"]
    for d in CTX:
        for s in small:
            res.append({"key": ["qb:" + d, s, None], "ops": ["i:" + d, "i:" + d], "bound": 1})
            res.append({"key": ["qb:" + d, s, None], "ops": ["p:" + d, "i:mysql"], "bound": 1})
        res.append({"key": ["setop:" + d, "two", None], "ops": ["i:" + d, "p:" + d], "bound": 1})
        res.append({"key": ["setop:" + d, "three_ord", None], "ops": ["i:" + d, "p:" + d], "bound": 1})
        if tier == "thorough":
            for s in big:
                res.append({"key": ["qb:" + d, s, None], "ops": ["i:" + d, "p:" + d], "bound": 1})
            res.append({"key": ["qb:" + d, "dele", None], "ops": ["i:" + d, "p:" + d], "bound": 2})
            res.append({"key": ["qb:" + d, "upd_join", None], "ops": ["str", "str", "p:" + d], "bound": 1})
    # dialect-sensitive constants rendered for two *different* dialects at once (state kept outside the object between two
    # steps of one render - a class attribute, a module global - is only visible when the other thread renders for another dialect)
    for sname in zoo.sens_seeds():
        res.append({"key": ["sens", sname, None], "ops": ["p:mysql", "i:postgresql"], "bound": 1})
    res.append({"key": ["create", "c_full", None], "ops": ["str", "i:mysql"], "bound": 1})
    res.append({"key": ["term:Case", "z", None], "ops": ["str", "p:postgresql"], "bound": 1})
    res.append({"key": ["term:AnalyticFunction", "z", None], "ops": ["str", "hash"], "bound": 1})
    res.append({"key": ["table", "for", None], "ops": ["str", "hash"], "bound": 1})
    if tier == "thorough":
        res.append({"key": ["term:Case", "z", None], "ops": ["str", "p:postgresql"], "bound": 1, "opcodes": True})
        res.append({"key": ["qb:postgresql", "dele", None], "ops": ["i:postgresql", "p:postgresql"], "bound": 1,
                    "opcodes": True})
    return res


def expand(chunk):
    global _DYN_SCHED
    _DYN_SCHED = 0
    _SEEN_WRITERS.clear()  # caps are per work unit, so that what is explored does not depend on the worker a unit lands on
    if chunk["kind"] == "hist":
        for k in chunk["keys"]:
            yield {"kind": "hist", "key": k}
    else:
        yield chunk


# --------------------------------------------------------------------------------------------------


def _tname(o):
    return type(o).__qualname__


import dis as _dis

_STORES = {}


def _code_stores(code):
    """does this code object store to an attribute / item / call a mutating container method?"""
    k = code
    if k not in _STORES:
        ops = {i.opname for i in _dis.get_instructions(code)}
        names = set(code.co_names)
        # (mutating method calls on long-lived containers show up in the before/after fingerprints; what those cannot
        # see is a store that is undone before the render returns, and such a store is an attribute/item assignment)
        _STORES[k] = bool(ops & {"STORE_ATTR", "STORE_SUBSCR", "DELETE_ATTR", "DELETE_SUBSCR"})
    return _STORES[k]


def may_write(o, rname):
    """library functions executed by this render op that contain stores (transient writes restored before the
    render returns are invisible to before/after fingerprints; this finds the candidates)"""
    lib = sched._LIB
    hits = set()

    def prof(frame, event, arg):
        if event == "call":
            c = frame.f_code
            if c.co_filename.startswith(lib) and c.co_name not in ("__init__", "create_param", "copy", "__copy__", "as_", "_copy") and _code_stores(c):
                hits.add(c.co_qualname)

    sys.setprofile(prof)
    try:
        ROPS[rname](o)
    finally:
        sys.setprofile(None)
    return hits


_SEEN_WRITERS = {}
_DYN_SCHED = 0
DYN_SCHED_CAP = 2  # per worker chunk: schedule explorations triggered by a non-empty write set


def _selffp(o):
    """fingerprint for comparing one object with itself at two moments (C pickler; falls back to the canonical walk)"""
    import pickle

    try:
        return pickle.dumps(o, 5)
    except Exception:
        return deepfp_str(o)


def run_hist(case, res):
    key = case["key"]
    wrote_object = False
    o = build(key)
    if o is None or not hasattr(o, "get_sql"):
        return
    res.nontrivial = 1
    g0 = globals_fp()
    f0 = _selffp(o)
    res.states.append(h64(deepfp_str(o)))
    for r in RNAMES:
        fn = ROPS[r]
        ref = fn(build(key))
        out1 = fn(o)
        f1 = _selffp(o)
        out2 = fn(o)
        res.transitions += 3
        res.outcomes.append(h64(repr(out1)))
        if out1 != ref:
            res.violate("C02|%s|%s|history" % (_tname(o), opclass(r)),
                        "render %s after earlier renders of the same object differs from the render of a fresh object" % r,
                        key=key, op=r, fresh=ref, got=out1)
        if out2 != out1:
            res.violate("C02|%s|%s|repeat" % (_tname(o), opclass(r)),
                        "second %s of the same object differs from the first" % r, key=key, op=r, first=out1, second=out2)
        if f1 != f0:
            # the render wrote to the object: violation if observable now or one builder call later
            twin = build(key)
            ch = fp.changed_attrs({k: deepfp_str(v) for k, v in (odict(twin) or {}).items()}, o)
            oa, ob = obs(o), obs(twin)
            seen = oa != ob
            if not seen:
                fam_ops = _fam(key[0])[1]
                for k2, f2 in fam_ops.items():
                    try:
                        xa = obs(f2(o))
                    except Exception as e:
                        xa = type(e).__name__
                    try:
                        xb = obs(f2(build(key)))
                    except Exception as e:
                        xb = type(e).__name__
                    if xa != xb:
                        seen = True
                        break
                    # ... or when the derived object meets the object it was derived from in one expression
                    try:
                        xa2 = obs(_meet(f2(o), o))
                        t2_ = build(key)
                        xb2 = obs(_meet(f2(t2_), t2_))
                    except Exception:
                        continue
                    if xa2 != xb2:
                        seen = True
                        break
            if seen:
                res.violate("C02|%s|%s|writes|%s" % (_tname(o), opclass(r), ",".join(ch)),
                            "render %s changed the rendered object (attrs %s) observably" % (r, ch), key=key, op=r,
                            diff=obs_diff(ob, oa))
            else:
                wrote_object = True
                res.extra["unobservable_object_writes"] = res.extra.get("unobservable_object_writes", 0) + 1
                res.extra.setdefault("object_write_sites", set()).add("%s|%s|%s" % (_tname(o), opclass(r), ",".join(ch)))
            f0 = _selffp(o)
    # transient writes: a render function that stores into some object (other than via the Parameterizer / a fresh
    # context copy).  Such objects are handed to the scheduler below even if nothing differs afterwards.
    d_own = key[0].split(":")[1] if key[0].startswith(("qb:", "setop:", "mut:")) else "generic"
    writers = may_write(build(key), "i:" + d_own)
    if writers:
        res.extra.setdefault("render_functions_with_stores", set()).update(writers)
        wkey = (key[0].split(":")[0], tuple(sorted(writers)))
        _SEEN_WRITERS[wkey] = _SEEN_WRITERS.get(wkey, 0) + 1
        if _SEEN_WRITERS[wkey] <= 1:  # per work unit: one object per distinct set of storing render functions
            wrote_object = True
    wrote_global = globals_fp() != g0
    if wrote_global:
        res.extra["global_writes"] = res.extra.get("global_writes", 0) + 1
        res.extra.setdefault("global_write_objects", set()).add(json.dumps(key))
    if wrote_global or wrote_object:
        # non-empty write set => the interleavings are not one Mazurkiewicz trace: explore them for this object
        global _DYN_SCHED
        if _DYN_SCHED < DYN_SCHED_CAP:
            _DYN_SCHED += 1
            d = key[0].split(":")[1] if key[0].startswith(("qb:", "setop:", "mut:")) else "generic"
            for ops in (["i:" + d, "p:" + d],):
                run_sched({"key": key, "ops": ops, "bound": 1, "max_exec": 400}, res)
        else:
            res.extra["dyn_sched_skipped_cap"] = res.extra.get("dyn_sched_skipped_cap", 0) + 1


def _meet(x, o):
    """the derived term and the term it was derived from as operands of one criterion (what a memo carried over by the copy
    breaks: both operands are looked at together, e.g. collected into one set of fields)"""
    from pypika_tortoise.terms import Term
    from pypika_tortoise.queries import QueryBuilder, _SetOperation

    if not (isinstance(x, Term) and isinstance(o, Term)) or isinstance(o, (QueryBuilder, _SetOperation)) or isinstance(x, (QueryBuilder, _SetOperation)):
        raise TypeError("not two plain terms")
    return (x == 2) & (o == 1)


def run_pairs(case, res):
    key = case["key"]
    o = build(key)
    if o is None or not hasattr(o, "get_sql"):
        return
    res.nontrivial = 1
    ref = {r: ROPS[r](build(key)) for r in RNAMES}
    for r1 in RNAMES:
        for r2 in RNAMES:
            x = build(key)
            ROPS[r1](x)
            out = ROPS[r2](x)
            res.transitions += 2
            if out != ref[r2]:
                res.violate("C02|%s|%s|after:%s" % (_tname(x), opclass(r2), opclass(r1)),
                            "render %s after %s differs from render on a fresh object" % (r2, r1), key=key,
                            fresh=ref[r2], got=out)
    # k-fold repeat
    for r in RNAMES:
        x = build(key)
        outs = [ROPS[r](x) for _ in range(3)]
        res.transitions += 3
        if any(u != ref[r] for u in outs):
            res.violate("C02|%s|%s|repeat" % (_tname(x), opclass(r)), "3-fold repeat of %s is not constant" % r,
                        key=key, outs=outs)
    res.outcomes.extend(h64(repr(v)) for v in ref.values())
    res.states.append(h64(deepfp_str(o)))


def run_sched(case, res):
    key, ops, bound = case["key"], case["ops"], case["bound"]
    ref = [ROPS[r](build(key)) for r in ops]
    f_ref = deepfp_str(build(key))
    res.nontrivial = 1
    outcomes = set()
    bad = []

    def make():
        o = build(key)
        return [(lambda r=r: ROPS[r](o)) for r in ops], o

    def check(ex, o):
        got = list(ex.results)
        outcomes.add(h64(repr(got) + repr(ex.errors)))
        if (got != ref or any(ex.errors) or deepfp_str(o) != f_ref) and len(bad) < 3:
            bad.append({"schedule": sorted(ex.prefix.items()), "got": got, "errors": ex.errors,
                        "object_changed": deepfp_str(o) != f_ref})

    try:
        n, maxp, capped = sched.explore(make, bound, check, opcodes=case.get("opcodes", False),
                                        max_exec=case.get("max_exec", 60000))
    except sched.Divergence:
        # The same schedule prefix met different scheduling points: the library's execution path depends on something
        # other than the object and the schedule, i.e. on state kept outside the rendered object (a cache).  Warm that
        # state up, drop dead objects and explore again; if the path still is not reproducible the exploration of this
        # object is reported as not done (evidence: sched_divergence) - the verdict on such state is the cross-object and
        # history phases' business, and a crash here would hide their findings.
        import gc

        outcomes.clear()
        del bad[:]
        for r in ops:
            ROPS[r](build(key))
        gc.collect()
        try:
            n, maxp, capped = sched.explore(make, bound, check, opcodes=case.get("opcodes", False),
                                            max_exec=case.get("max_exec", 60000))
        except sched.Divergence as e:
            res.extra["sched_divergence"] = res.extra.get("sched_divergence", 0) + 1
            res.extra.setdefault("sched_divergence_objects", set()).add(json.dumps(key))
            res.warnings.append("schedule exploration not reproducible for %s: %s" % (json.dumps(key), e))
            return
    res.transitions += n * len(ops)
    res.extra["schedules"] = n
    res.extra["sched_points_max"] = maxp
    if capped:
        res.extra["sched_capped"] = 1
    res.outcomes.extend(outcomes)
    res.states.append(h64(f_ref))
    if bad:
        # replay the first failing schedule twice: identical observations required before trusting it
        b = bad[0]
        again = []
        for _ in range(2):
            bodies, o = make()
            ex = sched.Execution(bodies, dict((int(p), c) for p, c in b["schedule"])).run()
            again.append((list(ex.results), list(ex.errors)))
        if again[0] != again[1] or again[0][0] != b["got"]:
            raise RuntimeError("failing schedule does not replay deterministically (harness error)")
        res.violate("C02|%s|%s|schedule" % (key[0].split(":")[0], "+".join(opclass(r) for r in ops)),
                    "concurrent renders of one shared object give a result different from the sequential one",
                    key=key, ops=ops, schedule=b["schedule"], got=b["got"], errors=b["errors"], sequential=ref,
                    object_changed=b["object_changed"])


# ---- hash seeds -------------------------------------------------------------------------------------


def corpus_digest():
    out = {}
    for key in corpus_keys("quick"):
        o = build(key)
        if o is None or not hasattr(o, "get_sql"):
            continue
        h = hashlib.sha256()
        for d in CTX:
            h.update(repr(fp.render(o, CTX[d])).encode())
            s, v = fp.render_param(o, CTX[d])
            h.update(repr((s, vrepr(v))).encode())
        h.update(repr(ROPS["str"](o)).encode())
        out[json.dumps(key)] = h.hexdigest()[:16]
    return out


_DIGEST0 = None


def run_hashseed(case, res):
    global _DIGEST0
    if _DIGEST0 is None:
        _DIGEST0 = corpus_digest()
    env = dict(os.environ, PYTHONHASHSEED=str(case["k"]), PYTHONDONTWRITEBYTECODE="1", VERIF_REPO=REPO)
    p = subprocess.run([sys.executable, "-m", "mc.checks.c02", "--digest"], cwd=VERIF_DIR, env=env,
                       capture_output=True, text=True)
    if p.returncode != 0:
        raise RuntimeError("digest subprocess failed: %s" % p.stderr[-500:])
    other = json.loads(p.stdout)
    res.nontrivial = 1
    res.transitions += len(other) * 13
    res.states.append(h64("hashseed%d" % case["k"]))
    diff = [k for k in _DIGEST0 if other.get(k) != _DIGEST0[k]]
    res.outcomes.append(h64(json.dumps(other, sort_keys=True)))
    for k in diff[:50]:
        key = json.loads(k)
        o = build(key)
        res.violate("C02|%s|hashseed" % _tname(o),
                    "renderings differ between PYTHONHASHSEED=0 and PYTHONHASHSEED=%d" % case["k"], key=key,
                    hashseed=case["k"], here=[fp.render(o, CTX[d]) for d in CTX][:2])


# ---- iteration orders of attribute-held sets -----------------------------------------------------------


class PermSet(set):
    def __init__(self, items, order=None):
        super().__init__(items)
        self._order = list(items) if order is None else [list(items)[i] for i in order]

    def __iter__(self):
        return iter(self._order)


def _find_sets(o, path="", seen=None, out=None):
    seen = seen if seen is not None else set()
    out = out if out is not None else []
    if id(o) in seen:
        return out
    seen.add(id(o))
    d = odict(o)
    if d is not None:
        for k, v in d.items():
            if isinstance(v, (set, frozenset)):
                out.append((o, k))
            _find_sets(v, path + "." + k, seen, out)
    elif isinstance(o, (list, tuple)):
        for x in o:
            _find_sets(x, path, seen, out)
    elif isinstance(o, dict):
        for x in o.values():
            _find_sets(x, path, seen, out)
    return out


def _setorder_seeds():
    from pypika_tortoise import Table

    S = {}
    for d, QQ in fp.DIALECTS:
        def two_star(QQ=QQ):
            t, u, w = Table("t"), Table("u"), Table("w")
            return (QQ.from_(t).join(u).on(t.id == u.id).join(w).on(t.id == w.id).select(t.star, u.star, w.star, t.a)
                    .for_update(of=("t", "u", "w")))

        S["2star:" + d] = two_star
    return S


def run_setorder(case, res):
    S = _setorder_seeds()
    for key in corpus_keys("quick"):
        if key[2] is None and key[0].startswith("qb:"):
            S[json.dumps(key)] = (lambda key=key: build(key))
    n_sets = 0
    for name, fac in S.items():
        base = fac()
        ref = obs(base)
        sets = [(i, k) for i, (o, k) in enumerate(_find_sets(base)) if len(getattr(o, k)) >= 2]
        for idx, attr in sets:
            size = len(getattr(_find_sets(base)[idx][0], attr))
            if size > 4:
                continue
            n_sets += 1
            for perm in itertools.permutations(range(size)):
                x = fac()
                owner, a = _find_sets(x)[idx]
                items = sorted(getattr(owner, a), key=lambda m: deepfp_str(m))
                object.__getattribute__(owner, "__dict__")[a] = PermSet(items, perm)
                got = obs(x)
                res.transitions += 1
                res.outcomes.append(h64(repr(got)))
                if got != ref:
                    res.violate("C02|%s|setorder|%s" % (_tname(owner), a),
                                "rendering depends on the iteration order of the set attribute %s" % a, seed=name,
                                perm=list(perm), diff=obs_diff(ref, got))
    res.nontrivial = 1
    res.extra["sets_permuted"] = n_sets
    res.states.append(h64("setorder"))


# ---- write monitor -----------------------------------------------------------------------------------


def run_writemon(case, res):
    """solo traced run: fingerprint (object graph + module globals) at every line event; report the write set."""
    import sys as _sys

    lib = sched._LIB
    total_points = 0
    for sk in [sched_corpus("quick")[case["index"]]]:
        key = sk["key"]
        for r in sorted(set(sk["ops"])):
            o = build(key)
            last = [h64(deepfp_str(o)) ^ globals_fp(), None]
            writes = []

            def local(frame, event, arg):
                if event == "line":
                    cur = h64(deepfp_str(o)) ^ globals_fp()
                    if cur != last[0]:
                        writes.append("%s:%s" % (os.path.basename(last[1][0]) if last[1] else "?", last[1][1] if last[1] else 0))
                        last[0] = cur
                    last[1] = (frame.f_code.co_filename, frame.f_lineno)
                return local

            def glob(frame, event, arg):
                if event == "call" and frame.f_code.co_filename.startswith(lib):
                    return local
                return None

            npts = [0]
            _sys.settrace(glob)
            try:
                ROPS[r](o)
            finally:
                _sys.settrace(None)
            res.transitions += 1
            if writes:
                res.extra.setdefault("write_set", set()).update("%s %s %s" % (json.dumps(key), r, w) for w in writes)
    res.extra["writemon_runs"] = res.transitions
    res.nontrivial = 1
    res.states.append(h64("writemon"))
    res.extra["os_time_random_imports"] = sorted(
        m for m in ("time", "random", "os", "secrets", "threading") if any(m in vars(M) for M in zoo.live_modules()))


_CROSS_OPS = None


def _cross_render(keys, order):
    """build every object of the batch, keep all of them alive, render them in the given order"""
    global _CROSS_OPS
    if _CROSS_OPS is None:
        _CROSS_OPS = [r for r in RNAMES if r.startswith(("i:", "p:")) or r in ("str", "gps")]
    live = []
    for k in keys:
        o = build(k)
        if o is not None and hasattr(o, "get_sql"):
            live.append((json.dumps(k), o))
    out = {}
    for ks, o in (live if order == "forward" else live[::-1]):
        out[ks] = [repr(ROPS[r](o)) for r in _CROSS_OPS]
    return out, live


# A pristine process for every cross-object run: a zygote is forked from the main process before anything was rendered
# (chunks() runs there, before the worker pool exists) and forks one child per request.  Whatever earlier work units left
# behind in a worker - live objects, warm caches - cannot mask or fake an interference between the objects of the batch,
# and the verdict does not depend on how work units are distributed over workers.
_ZY_NAME = None


def _zy_handle(conn):
    import pickle
    import struct

    try:
        f = conn.makefile("rwb")
        n = struct.unpack("<I", f.read(4))[0]
        req = pickle.loads(f.read(n))
        out, live = _cross_render(req["keys"], req["order"])
        data = pickle.dumps({"out": out, "types": {ks: _tname(o) for ks, o in live}})
    except BaseException as e:  # noqa
        data = pickle.dumps({"error": "%s: %s" % (type(e).__name__, e)})
    f.write(struct.pack("<I", len(data)) + data)
    f.flush()


def _zygote_start():
    global _ZY_NAME
    import signal
    import socket

    if _ZY_NAME is not None:
        return
    name = "\0c02zy_%d" % os.getpid()
    srv = socket.socket(socket.AF_UNIX, socket.SOCK_STREAM)
    srv.bind(name)
    srv.listen(128)
    ppid = os.getpid()
    pid = os.fork()
    if pid == 0:
        try:
            signal.signal(signal.SIGCHLD, signal.SIG_IGN)
            srv.settimeout(1.0)
            while os.getppid() == ppid:
                try:
                    conn, _ = srv.accept()
                except socket.timeout:
                    continue
                except OSError:
                    break
                if os.fork() == 0:
                    srv.close()
                    conn.settimeout(None)
                    _zy_handle(conn)
                    os._exit(0)
                conn.close()
        finally:
            os._exit(0)
    srv.close()
    _ZY_NAME = name


def _zy_request(keys, order):
    import pickle
    import socket
    import struct

    c = socket.socket(socket.AF_UNIX, socket.SOCK_STREAM)
    c.connect(_ZY_NAME)
    data = pickle.dumps({"keys": keys, "order": order})
    c.sendall(struct.pack("<I", len(data)) + data)
    return c


def _zy_reply(c):
    import pickle
    import struct

    f = c.makefile("rb")
    n = struct.unpack("<I", f.read(4))[0]
    rep = pickle.loads(f.read(n))
    c.close()
    if "error" in rep:
        raise RuntimeError("cross-object child failed: " + rep["error"])
    return rep


def run_cross(case, res):
    """Renders of *different* objects must not influence each other: a batch of corpus objects (a seed and its
    successors: equal-looking statements that differ in one clause) is built, kept alive and rendered in forward order
    in one pristine process and in reverse order in another.  Any cache or scratch state outside the rendered object
    that is keyed by something coarser than the object (an `__eq__`/`__hash__` that ignores clauses, a rendered string,
    ...) makes the two orders disagree."""
    _zygote_start()  # no-op when chunks() already started it in the main process
    keys = case["keys"]
    c1, c2 = _zy_request(keys, "forward"), _zy_request(keys, "reverse")
    fwd, rev = _zy_reply(c1), _zy_reply(c2)
    res.nontrivial = 1 if len(fwd["out"]) > 1 else 0
    ops = [r for r in RNAMES if r.startswith(("i:", "p:")) or r in ("str", "gps")]
    for ks, a in fwd["out"].items():
        res.transitions += 2 * len(ops)
        b = rev["out"].get(ks)
        if a != b:
            i = next((i for i in range(len(a)) if b is None or a[i] != b[i]), 0)
            res.violate("C02|%s|%s|cross-object" % (fwd["types"][ks], opclass(ops[i])),
                        "the render of an object depends on which other live objects were rendered before it "
                        "(forward vs reverse order over a batch of corpus objects, each order in a pristine process)",
                        key=json.loads(ks), op=ops[i], forward=a[i], reverse=None if b is None else b[i],
                        batch=[json.loads(k) for k in fwd["out"]][:12])
    res.states.append(h64(repr(sorted(fwd["out"]))))
    res.outcomes.extend(h64(repr(v)) for v in fwd["out"].values())


def run_case(case):
    res = Result()
    k = case["kind"]
    if k == "hist":
        run_hist(case, res)
    elif k == "cross":
        run_cross(case, res)
    elif k == "pairs":
        run_pairs(case, res)
    elif k == "sched":
        run_sched(case, res)
    elif k == "hashseed":
        run_hashseed(case, res)
    elif k == "setorder":
        run_setorder(case, res)
    elif k == "writemon":
        run_writemon(case, res)
    return res


def describe():
    return {
        "rule": "corpus = every seed of every builder/term family and each depth-1 successor (~4400 objects); "
                "hist: 22 render ops each compared with a fresh object and repeated, object graph fingerprinted "
                "after every op; pairs: all ordered pairs of render ops on seeds; sched: all 2-thread "
                "interleavings within the preemption bound at line granularity; hashseed: whole-corpus digest in "
                "subprocesses; setorder: all permutations of attribute-held sets; non-trivial = renderable object",
        "bound": {"quick": "hist all; pairs on ~110 seeds; 55 schedule explorations bound 1 (line events); "
                           "PYTHONHASHSEED 1..7; sets of size<=4",
                  "thorough": "pairs on all seeds; + big statements bound 1, small bound 2, 3 threads, opcode "
                              "granularity on two objects; PYTHONHASHSEED 1..63 + 4 derived from VERIF_SEED"},
        "assumptions": [
            "scheduling points are line events inside pypika_tortoise frames (the library has no locks); CPython's "
            "GIL makes bytecodes atomic, opcode-level exploration is done for two small objects in thorough",
            "hash-seed dependence of sets created and iterated inside a render is only covered by the listed seeds",
            "module-global writes that never change an output are reported in the evidence (write_set), not as "
            "violations; they are exactly what the schedule exploration then stresses",
        ],
    }


if __name__ == "__main__":
    if "--digest" in sys.argv:
        print(json.dumps(corpus_digest()))
