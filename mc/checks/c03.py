"""C03 — SQLite-dialect statements mean what the builder calls say (engine-checked).

Bounded-exhaustive Cartesian product of clause menus of the relational core (projection, WHERE, inner/left/cross
joins, subqueries in FROM and IN, GROUP BY/HAVING, DISTINCT, ORDER BY, LIMIT/OFFSET, window functions, unwrapped
set operations, INSERT, upsert, UPDATE, DELETE) driven through SQLLiteQuery, plus every C06 expression triple placed
in the select list and in WHERE.  Reference model: the plain, fully parenthesised, fully qualified transcription of
the same program (mc/ref.py).  Oracle: the real SQLite engine accepts the rendered SQL; the rendered and the
reference statement compile to the identical VDBE program (= same result on every database), else they are
executed on a bounded-exhaustive family of databases and rows / final table contents are compared.
"""
from __future__ import annotations

import itertools
import json
import sqlite3

from mc.common import Result, h64
from mc import fp, prog, ref
from mc.checks import c06

from pypika_tortoise import SQLLiteQuery, Table

PROPERTY = "C03"
D = "sqlite"


def f(k, c):
    return ["f", k, c]


def raw(v):
    return ["raw", v]


def A(e, n):
    return ["as", e, n]


SUBQ_U = {"calls": [["from", ["t", "u"]], ["select", [f("u", "id"), A(f("u", "x"), "a"), A(f("u", "y"), "b"), A(f("u", "y"), "s")]],
                    ["where", ["cmp", ">", f("u", "x"), raw(0)]]]}
SUBQ_J = {"calls": [["from", ["t", "u"]], ["select", [f("u", "tid"), A(["agg", "MAX", f("u", "x")], "mx")]], ["groupby", [f("u", "tid")]]]}
IN_SUB = {"calls": [["from", ["t", "u"]], ["select", [f("u", "x")]], ["where", ["notnull", f("u", "x")]]]}


def select_programs(tier):
    frm = [("t", ["t", "t"]), ("ta", ["t", "t", "ta"]), ("sq", ["q", "sq", SUBQ_U, "sq"]), ("t+u", None)]
    join = [None, ("inner", ["t", "u"], "u"), ("left", ["t", "u"], "u"), ("cross", ["t", "u"], "u"), ("inner", ["q", "ju", SUBQ_J, "ju"], "ju"),
            ("left", ["t", "t", "t2"], "t2"), ("left", ["q", "ju", SUBQ_J, "ju"], "ju")]

    def sels(B):
        return [[f(B, "a")], [f(B, "a"), f(B, "b")], [A(["arith", "+", f(B, "a"), ["arith", "*", f(B, "b"), raw(2)]], "k")],
                [["agg", "COUNT", "*"]], [["agg", "SUM", f(B, "b")], ["agg", "MIN", f(B, "a")]], [["star", None]],
                [A(["case", [[["cmp", ">", f(B, "a"), raw(1)], raw("hi")]], raw("lo")], "c"), f(B, "id")], [["lit", 5], f(B, "a")],
                [f(B, "id"), A(["win", "ROW_NUMBER", [], [f(B, "a")], [[f(B, "id"), "asc"]]], "rn")],
                [A(f(B, "a"), "k"), f(B, "b")], [raw(True), raw(False), f(B, "id")]]

    def wheres(B):
        return [None, ["cmp", ">", f(B, "a"), raw(1)],
                ["logic", "OR", ["logic", "AND", ["cmp", ">", f(B, "a"), raw(1)], ["cmp", "<", f(B, "b"), raw(5)]], ["not", ["cmp", "=", f(B, "s"), raw("x")]]],
                ["in", f(B, "a"), [raw(1), raw(2)]], ["insub", f(B, "a"), IN_SUB], ["isnull", f(B, "a")],
                ["between", f(B, "b"), raw(1), raw(3)], ["like", f(B, "s"), "a%"], ["insub", f(B, "a"), IN_SUB, "notin"],
                ["logic", "AND", ["cmp", ">", f(B, "a"), raw(0)], ["logic", "OR", ["cmp", "<", f(B, "b"), raw(5)], ["not", ["cmp", "=", f(B, "s"), raw("x")]]]],
                ["cmp", "=", ["cmp", ">", f(B, "a"), raw(1)], raw(True)],
                ["in", f(B, "a"), [], True], ["not", ["in", f(B, "a"), []]], ["logic", "OR", ["in", f(B, "a"), []], ["isnull", ["in", f(B, "b"), []]]]]

    def orders(B):
        return [None, [(f(B, "a"), "asc"), (f(B, "id"), "asc")], [(["arith", "*", f(B, "b"), raw(2)], "desc"), (f(B, "id"), None)],
                [("ALIAS", "asc"), (f(B, "id"), "asc")],
                # a sort key repeated with another direction (the later occurrence is redundant, the first one decides)
                [(f(B, "a"), "asc"), (f(B, "id"), "asc"), (f(B, "a"), "desc")],
                [(f(B, "b"), "desc"), (f(B, "id"), "desc"), (f(B, "b"), "asc"), (f(B, "id"), "asc")]]

    lims = [[], [["limit", 2]], [["limit", 2], ["offset", 1]], [["offset", 2]], [["limit", 0]], [["limit", 0], ["offset", 1]], [["limit", 2], ["offset", 0]],
            [["offset", 0]]]
    if tier == "quick":
        frm, join = frm[:3], [join[0], join[1], join[2], join[6]]
    for (B, F), J in itertools.product(frm, join):
        if F is None:
            if J is not None:
                continue
            B = "t"
        S, W, O = sels(B), wheres(B), orders(B)
        if tier == "quick":
            S, W, O, L = [S[0], S[2], S[3], S[6], S[8], S[9], S[10]], [W[0], W[1], W[2], W[4], W[6], W[9], W[11], W[13]], O[:3] + O[3:], lims[:6]
        else:
            L = lims
        for s, w, g, dist, o, l in itertools.product(S, W, [None, "col", "alias"], [False, True], O, L):
            has_agg = any(x[0] == "agg" or (x[0] == "as" and x[1][0] == "agg") for x in s)
            has_win = any(x[0] == "as" and x[1][0] == "win" for x in s)
            aliased = [x for x in s if x[0] == "as" and x[2] == "k"]
            if g == "alias" and not aliased:
                continue
            if g and (has_win or s[0][0] == "star"):
                continue
            if o is not None and o[0][0] == "ALIAS" and not aliased:
                continue
            if l and o is None:
                continue  # LIMIT without a total order is not deterministic
            if has_agg and not g and (o is not None or dist):
                continue
            if g == "col" and not has_agg and s[0] != f(B, "a") and not aliased:
                continue
            if dist and o is not None and o[0][0] != "ALIAS" and s[0][0] != "star":
                # ORDER BY id with DISTINCT on other columns: fine in SQLite, keep
                pass
            if g and o is not None:
                # order by grouped things only
                o = [x for x in o if x[0] == "ALIAS" or x[0] == f(B, "a")] or None
                if o is None:
                    continue
            calls = []
            if F is None:
                calls += [["from", ["t", "t"]], ["from", ["t", "u"]]]
            else:
                calls.append(["from", F])
            if J is not None:
                how, src, jk = J
                if how == "cross":
                    calls.append(["join", "cross", src, ["cross"]])
                else:
                    oncol = {"u": "tid", "ju": "tid", "t2": "id"}[jk]
                    calls.append(["join", how, src, ["on", ["cmp", "=", f(B, "id"), f(jk, oncol)]]])
            calls.append(["select", s])
            if w is not None:
                calls.append(["where", w])
            if g == "col":
                calls.append(["groupby", [f(B, "a")] if not aliased else [aliased[0]]])
                calls.append(["having", ["cmp", ">", ["agg", "COUNT", "*"], raw(0)]])
            elif g == "alias":
                calls.append(["groupby", [aliased[0]]])
            if dist:
                calls.append(["distinct"])
            if o is not None:
                for e, dr in o:
                    calls.append(["orderby", [aliased[0] if e == "ALIAS" else e], dr])
            calls += l
            yield {"calls": calls}


def struct_programs(tier):
    """hand-shaped structures the product menus do not reach: self-correlated subqueries over a renamed copy of the outer
    table, several automatically named subqueries (plain and nested) in one statement, ELSE / THEN values that are falsy"""
    oid = [["orderby", [f("t", "id")], "asc"]]
    for crit in (["cmp", "=", f("t", "b"), f("x", "b")], ["cmp", "=", f("x", "b"), f("t", "b")],
                 ["logic", "AND", ["cmp", "=", f("t", "b"), f("x", "b")], ["cmp", "<", f("t", "id"), f("x", "id")]],
                 ["between", f("x", "b"), f("t", "a"), f("t", "b")], ["between", f("t", "b"), f("x", "a"), f("x", "b")]):
        sub = {"calls": [["from", ["t", "t", "x"]], ["select", [["arith", "-", f("x", "a"), raw(1)]]], ["where", crit]]}
        for neg in (False, True):
            yield {"calls": [["from", ["t", "t"]], ["select", [f("t", "id"), f("t", "a")]],
                             ["where", ["insub", f("t", "a"), sub] + (["notin"] if neg else [])]] + oid}
            yield {"calls": [["from", ["t", "t"]], ["select", [f("t", "id"), f("t", "a")]], ["where", ["cmp", ">", f("t", "id"), raw(0)]],
                             ["where", ["insub", f("t", "a"), sub] + (["notin"] if neg else [])]] + oid}
    nest1 = {"calls": [["from", ["q", "in1", SUBQ_U]], ["select", [f("in1", "id"), f("in1", "a")]]]}
    nest2 = {"calls": [["from", ["q", "in2", nest1]], ["select", [f("in2", "id"), f("in2", "a")]], ["where", ["notnull", f("in2", "a")]]]}
    subs = {"u": SUBQ_U, "n1": nest1, "n2": nest2, "j": SUBQ_J}
    col = {"u": ("id", "a"), "n1": ("id", "a"), "n2": ("id", "a"), "j": ("tid", "mx")}
    for k1, k2 in itertools.product(subs, repeat=2):
        for how in ("inner", "left"):
            # plain FROM, two un-aliased joined subqueries
            yield {"calls": [["from", ["t", "t"]],
                             ["join", how, ["q", "j1", subs[k1]], ["on", ["cmp", "=", f("t", "id"), f("j1", col[k1][0])]]],
                             ["join", how, ["q", "j2", subs[k2]], ["on", ["cmp", "=", f("t", "id"), f("j2", col[k2][0])]]],
                             ["select", [f("t", "id"), f("j1", col[k1][1]), f("j2", col[k2][1])]]]
                   + [["orderby", [f("t", "id")], "asc"], ["orderby", [f("j1", col[k1][1])], "asc"], ["orderby", [f("j2", col[k2][1])], "asc"]]}
        # un-aliased subquery in FROM, two more joined
        yield {"calls": [["from", ["q", "b0", SUBQ_U]],
                         ["join", "left", ["q", "j1", subs[k1]], ["on", ["cmp", "=", f("b0", "id"), f("j1", col[k1][0])]]],
                         ["join", "left", ["q", "j2", subs[k2]], ["on", ["cmp", "=", f("b0", "id"), f("j2", col[k2][0])]]],
                         ["select", [f("b0", "id"), f("j1", col[k1][1]), f("j2", col[k2][1])]]]
               + [["orderby", [f("b0", "id")], "asc"], ["orderby", [f("j1", col[k1][1])], "asc"], ["orderby", [f("j2", col[k2][1])], "asc"]]}
        # FROM list of three
        yield {"calls": [["from", ["q", "b0", SUBQ_U]], ["from", ["q", "j1", subs[k1]]], ["from", ["q", "j2", subs[k2]]],
                         ["select", [f("b0", "id"), f("j1", col[k1][1]), f("j2", col[k2][1])]],
                         ["where", ["logic", "AND", ["cmp", "=", f("b0", "id"), f("j1", col[k1][0])], ["cmp", "=", f("b0", "id"), f("j2", col[k2][0])]]]]
               + [["orderby", [f("b0", "id")], "asc"], ["orderby", [f("j1", col[k1][1])], "asc"], ["orderby", [f("j2", col[k2][1])], "asc"]]}
    # windows ordered by several keys (one orderby() call per key, mixed directions), aggregates with FILTER
    for keys in ([[f("t", "b"), "desc"], [f("t", "id"), "asc"]], [[f("t", "a"), "asc"], [f("t", "b"), "desc"], [f("t", "id"), "desc"]],
                 [[f("t", "id"), "desc"]]):
        for fn, args in (("ROW_NUMBER", []), ("SUM", [f("t", "id")]), ("COUNT", [f("t", "id")])):
            for part in ([], [f("t", "s")]):
                yield {"calls": [["from", ["t", "t"]], ["select", [f("t", "id"), A(["win", fn, args, part, keys], "w")]]] + oid}
    for crit in (["cmp", ">", f("t", "b"), raw(1)], ["logic", "OR", ["cmp", ">", f("t", "b"), raw(1)], ["isnull", f("t", "a")]]):
        yield {"calls": [["from", ["t", "t"]], ["select", [A(["aggf", "SUM", f("t", "a"), crit], "sf"), ["agg", "COUNT", "*"]]]]}
        yield {"calls": [["from", ["t", "t"]], ["select", [f("t", "s"), A(["aggf", "MAX", ["arith", "+", f("t", "a"), raw(100)], crit], "mf")]], ["groupby", [f("t", "s")]],
                         ["orderby", [f("t", "s")], "asc"]]}
    # several keys in one orderby() call with a direction (ties on the first key decide), text values with adjacent quotes
    for dr in ("desc", "asc"):
        yield {"calls": [["from", ["t", "t"]], ["select", [f("t", "id"), f("t", "b")]], ["orderby", [f("t", "b"), f("t", "id")], dr]]}
        yield {"calls": [["from", ["t", "t"]], ["select", [f("t", "id")]], ["orderby", [f("t", "s"), f("t", "b"), f("t", "id")], dr], ["limit", 3]]}
    Q1 = chr(39)
    for txt in ("a" + Q1 * 2 + "b", Q1 * 2, "it" + Q1 + "s " + Q1 * 2 + "so" + Q1 * 2, "x" + Q1 * 3 + "y"):
        yield {"calls": [["into", ["t", "t"]], ["insert_rows", [[raw(9), raw(1), raw(2), raw(txt)]]]]}
        yield {"calls": [["update", ["t", "t"]], ["set", "s", raw(txt)], ["where", ["cmp", ">", f("t", "id"), raw(2)]]]}
        yield {"calls": [["from", ["t", "t"]], ["select", [f("t", "id"), A(["lit", txt], "v")]], ["where", ["cmp", "<>", f("t", "s"), raw(txt)]]] + oid}
    # a selected, aliased term re-used as PARTITION BY / ORDER BY key of a window
    g = A(["arith", "+", f("t", "b"), raw(0)], "g")
    o = A(f("t", "a"), "oa")
    yield {"calls": [["from", ["t", "t"]], ["select", [f("t", "id"), g, A(["win", "ROW_NUMBER", [], [g], [[f("t", "id"), "asc"]]], "w")]]] + oid}
    yield {"calls": [["from", ["t", "t"]], ["select", [f("t", "id"), o, A(["win", "SUM", [f("t", "id")], [], [[o, "desc"], [f("t", "id"), "asc"]]], "w")]]] + oid}
    yield {"calls": [["from", ["t", "t"]], ["select", [f("t", "id"), g, o, A(["win", "COUNT", [f("t", "id")], [g], [[o, "asc"]]], "w")]]] + oid}
    # CASE with falsy THEN / ELSE values in projection, grouping and DML
    for els in (raw(0), raw(""), raw(False), raw(0.0), ["null"], raw(1), None):
        for then in (raw(0), raw("hi"), raw(False)):
            case = ["case", [[["cmp", ">", f("t", "a"), raw(1)], then]], els]
            yield {"calls": [["from", ["t", "t"]], ["select", [f("t", "id"), A(case, "c")]]] + oid}
            yield {"calls": [["from", ["t", "t"]], ["select", [A(case, "k"), ["agg", "COUNT", "*"]]], ["groupby", [A(case, "k")]]]}
            yield {"calls": [["update", ["t", "t"]], ["set", "b", case]]}


def equiv_pairs():
    """two ways of writing the same thing (a column given by name / as a field of the first FROM table): one statement"""
    for with_join in (False, True):
        for frm in (["t", "t"], ["t", "t", "ta"]):
            B = frm[2] if len(frm) > 2 else "t"
            joins = [["join", "inner", ["t", "u"], ["on", ["cmp", "=", f(B, "id"), f("u", "tid")]]]] if with_join else []
            base = [["from", frm]] + joins
            yield ({"calls": base + [["select", [f(B, "a"), f(B, "id")]], ["orderby", [["name", "id"]], "desc"]]},
                   {"calls": base + [["select", [f(B, "a"), f(B, "id")]], ["orderby", [f(B, "id")], "desc"]]})
            yield ({"calls": base + [["select", [["name", "id"], ["agg", "COUNT", "*"]]], ["groupby", [["name", "id"]]], ["orderby", [["name", "id"]], "asc"]]},
                   {"calls": base + [["select", [f(B, "id"), ["agg", "COUNT", "*"]]], ["groupby", [f(B, "id")]], ["orderby", [f(B, "id")], "asc"]]})
            yield ({"calls": base + [["select", [["name", "a"]]], ["where", ["cmp", ">", f(B, "b"), raw(1)]], ["orderby", [["name", "id"]], "asc"], ["limit", 3]]},
                   {"calls": base + [["select", [f(B, "a")]], ["where", ["cmp", ">", f(B, "b"), raw(1)]], ["orderby", [f(B, "id")], "asc"], ["limit", 3]]})


def setop_programs(tier):
    a = {"calls": [["from", ["t", "t"]], ["select", [f("t", "a")]], ["where", ["cmp", ">", f("t", "a"), raw(0)]]]}
    b = {"calls": [["from", ["t", "u"]], ["select", [f("u", "x")]]]}
    c = {"calls": [["from", ["t", "v"]], ["select", [A(f("v", "x"), "a")]], ["where", ["notnull", f("v", "x")]]]}
    ops = ["union", "union_all", "intersect", "except_of"]
    for o1 in ops:
        yield {"calls": a["calls"] + [[o1, b]], "opts": {"wrap_set_operation_queries": False}}
        yield {"calls": a["calls"] + [[o1, b], ["orderby", [f("t", "a")], "asc"], ["limit", 3]], "opts": {"wrap_set_operation_queries": False}}
        yield {"calls": a["calls"] + [[o1, b], ["orderby", [f("t", "a")], "asc"], ["offset", 2]], "opts": {"wrap_set_operation_queries": False}}
        for o2 in ops:
            yield {"calls": a["calls"] + [[o1, b], [o2, c]], "opts": {"wrap_set_operation_queries": False}}
            yield {"calls": a["calls"] + [[o1, b], [o2, c], ["orderby", [f("t", "a")], "desc"], ["limit", 2], ["offset", 1]],
                   "opts": {"wrap_set_operation_queries": False}}


def reuse_programs(tier):
    """one table under two aliases with a table star next to columns of the other alias; one column assigned twice; a column
    selected twice; the same operand twice in a set operation"""
    X, Y = ["t", "t", "x"], ["t", "t", "y"]
    on = ["on", ["cmp", "=", f("x", "id"), f("y", "a")]]
    oid = [["orderby", [f("x", "id")], "asc"], ["orderby", [f("y", "id")], "asc"]]
    yield {"calls": [["from", X], ["join", "inner", Y, on], ["select", [f("x", "s"), ["star", "y"]]]] + oid}
    yield {"calls": [["from", X], ["join", "inner", Y, on], ["select", [f("y", "s")]], ["select", [["star", "x"]]]] + oid}
    yield {"calls": [["from", X], ["join", "left", Y, on], ["select", [f("x", "a"), f("y", "a"), f("x", "a")]]] + oid}
    T_ = ["t", "t"]
    yield {"calls": [["update", T_], ["set", f("t", "a"), raw(10)], ["set", f("t", "a"), ["arith", "+", f("t", "b"), raw(1)]]]}
    yield {"calls": [["update", T_], ["set", "a", raw(10)], ["set", f("t", "b"), raw(3)], ["set", "a", raw(11)], ["where", ["cmp", ">", f("t", "id"), raw(1)]]]}
    yield {"calls": [["from", T_], ["select", [f("t", "a"), f("t", "a"), ["lit", 1], ["lit", 1]]], ["orderby", [f("t", "id")], "asc"]]}
    yield {"calls": [["from", T_], ["select", [f("t", "a")]], ["select", [f("t", "b")]], ["select", [f("t", "a")]], ["orderby", [f("t", "id")], "asc"]]}
    yield {"calls": [["into", T_], ["columns", ["a", "b"]], ["from", ["t", "u"]], ["select", [f("u", "x"), f("u", "x")]]]}
    yield {"calls": [["from", T_], ["select", [f("t", "id")]], ["where", ["in", f("t", "a"), [raw(1), raw(1), raw(11), raw(1)]]], ["orderby", [f("t", "id")], "asc"]]}
    yield {"calls": [["from", T_], ["select", [f("t", "a")]], ["groupby", [f("t", "a")]], ["groupby", [f("t", "b")]], ["groupby", [f("t", "a")]], ["orderby", [f("t", "a")], "asc"]]}
    a = {"calls": [["from", T_], ["select", [f("t", "a")]], ["where", ["cmp", ">", f("t", "a"), raw(0)]]]}
    b = {"calls": [["from", ["t", "u"]], ["select", [f("u", "x")]]]}
    for o1, o2 in (("except_of", "union"), ("union", "intersect"), ("union_all", "union_all"), ("intersect", "union")):
        yield {"calls": a["calls"] + [[o1, b], [o2, b]], "opts": {"wrap_set_operation_queries": False}}


def setop_embedded_programs(tier):
    """a set operation (operands unwrapped, the only form SQLite reads) as a row source / IN operand of another statement"""
    a = {"calls": [["from", ["t", "t"]], ["select", [A(f("t", "a"), "k")]], ["where", ["cmp", ">", f("t", "a"), raw(0)]]]}
    b = {"calls": [["from", ["t", "u"]], ["select", [f("u", "x")]]]}
    c = {"calls": [["from", ["t", "v"]], ["select", [f("v", "x")]], ["where", ["notnull", f("v", "x")]]]}
    for o1 in ["union", "union_all", "intersect", "except_of"]:
        for tail in ([], [[("union" if o1 != "union" else "intersect"), c]]):
            so = {"calls": a["calls"] + [[o1, b]] + tail, "opts": {"wrap_set_operation_queries": False}}
            yield {"calls": [["from", ["q", "so", so, "so"]], ["select", [f("so", "k")]], ["orderby", [f("so", "k")], "asc"]]}
            yield {"calls": [["from", ["t", "t"]], ["select", [f("t", "id")]], ["where", ["insub", f("t", "b"), so]], ["orderby", [f("t", "id")], "asc"]]}
            yield {"calls": [["from", ["t", "t"]], ["select", [f("t", "id")]], ["where", ["insub", f("t", "b"), so, "notin"]], ["orderby", [f("t", "id")], "asc"]]}
            yield {"calls": [["from", ["t", "t"]], ["join", "inner", ["q", "so", so, "so"], ["on", ["cmp", "=", f("t", "b"), f("so", "k")]]],
                             ["select", [f("t", "id"), f("so", "k")]], ["orderby", [f("t", "id")], "asc"]]}


def dml_programs(tier):
    T = ["t", "t"]
    rowsets = [[[raw(9), raw(1), raw(2), raw("n")]], [[raw(9), raw(1), raw(2), raw("n")], [raw(10), ["null"], raw(0), raw("")]],
               [[raw(2), raw(7), ["arith", "+", ["lit", 1], raw(2)], raw("dup")]],
               [[raw(4), raw(7), raw(8), raw("d4")], [raw(3), raw(1), raw(1), raw("d3")], [raw(1), ["null"], ["null"], ["null"]]]]
    for rows in rowsets:
        yield {"calls": [["into", T], ["insert_rows", rows]]}
        yield {"calls": [["into", T], ["columns", ["id", "a", "b", "s"]], ["insert_rows", rows]]}
        # the rows given as lists instead of tuples
        yield {"calls": [["into", T], ["insert_rows", rows, "list"]]}
        yield {"calls": [["into", T], ["columns", ["id", "a", "b", "s"]], ["insert_rows", rows, "list"], ["on_conflict", ["id"]], ["do_update", "a", raw(9)]]}
        for conf in ([["on_conflict", ["id"]], ["do_nothing"]],
                     [["on_conflict", ["id"]], ["do_update", "a", raw(9)]],
                     [["on_conflict", ["id"]], ["do_update", "a", ["arith", "+", f("t", "a"), raw(1)]], ["do_update", "b", None]],
                     [["on_conflict", ["id"]], ["do_update", "s", None], ["where", ["cmp", ">", f("t", "b"), raw(1)]]],
                     [["on_conflict", ["id"]], ["do_update", "a", raw(0)], ["where", ["isnull", f("t", "a")]], ["where", ["cmp", "<", f("t", "id"), raw(5)]]]):
            yield {"calls": [["into", T], ["insert_rows", rows]] + conf}
            yield {"calls": [["into", T], ["columns", ["id", "a", "b", "s"]], ["insert_rows", rows]] + conf}
    yield {"calls": [["into", T], ["columns", ["a", "b"]], ["insert", [raw(5), raw(6)]]]}
    yield {"calls": [["into", T], ["columns", ["a", "b"]], ["from", ["t", "u"]], ["select", [f("u", "x"), f("u", "y")]], ["where", ["cmp", ">", f("u", "x"), raw(0)]]]}
    yield {"calls": [["into", T], ["columns", ["a"]], ["from", ["t", "u"]], ["select", [["arith", "+", f("u", "x"), raw(100)]]], ["orderby", [f("u", "id")], "asc"], ["limit", 2]]}
    wheres = [None, ["cmp", "=", f("t", "id"), raw(2)], ["insub", f("t", "a"), IN_SUB], ["logic", "OR", ["isnull", f("t", "a")], ["cmp", ">", f("t", "b"), raw(2)]],
              ["not", ["between", f("t", "b"), raw(0), raw(2)]], ["insub", f("t", "a"), IN_SUB, "notin"]]
    sets = [[["set", "a", raw(1)]], [["set", f("t", "a"), ["arith", "+", f("t", "a"), raw(1)]], ["set", "b", ["null"]]],
            [["set", "s", raw("x'y")]], [["set", "b", ["arith", "*", f("t", "b"), ["arith", "-", f("t", "a"), raw(1)]]]],
            [["set", "a", ["case", [[["cmp", ">", f("t", "b"), raw(1)], raw(1)]], raw(0)]]], [["set", "a", raw(False)], ["set", "b", raw(True)]]]
    for w in wheres:
        for s in sets:
            yield {"calls": [["update", T]] + s + ([["where", w]] if w else [])}
        yield {"calls": [["from", T], ["delete"]] + ([["where", w]] if w else [])}
        if w:
            yield {"calls": [["from", T], ["delete"], ["where", w], ["where", ["cmp", ">", f("t", "id"), raw(1)]]]}


GEN = {"select": select_programs, "setop": setop_programs, "dml": dml_programs, "struct": struct_programs}


def chunks(tier, seed):
    out = [{"gen": "select", "part": i, "of": 64, "tier": tier} for i in range(64)]
    out += [{"gen": "setop", "part": 0, "of": 1, "tier": tier}, {"gen": "dml", "part": 0, "of": 1, "tier": tier}]
    out += [{"gen": "struct", "part": i, "of": 4, "tier": tier} for i in range(4)]
    out += [{"gen": "kwalias", "part": i, "of": 4, "tier": tier} for i in range(4)]
    out.append({"gen": "setop_embedded", "part": 0, "of": 1, "tier": tier})
    out.append({"gen": "reuse", "part": 0, "of": 1, "tier": tier})
    out.append({"gen": "equiv"})
    out += [{"gen": "expr", "part": i, "of": 16, "tier": tier} for i in range(16)]
    return out


_P = {}


def _kw_twin(p):
    """the same program with every alias of a function / aggregate / window term handed to the constructor (alias=...)"""
    hit = [False]

    def walk(x):
        if isinstance(x, list):
            if len(x) == 3 and x[0] == "as" and isinstance(x[1], list) and x[1] and x[1][0] in ("func", "agg", "win", "coalesce"):
                hit[0] = True
                return ["as", walk(x[1]), x[2], "kw"]
            return [walk(y) for y in x]
        if isinstance(x, dict):
            return {k_: walk(v_) for k_, v_ in x.items()}
        return x

    q = walk(p)
    return q if hit[0] else None


def kw_alias_programs(tier):
    for g in ("select", "struct"):
        if g not in GEN:
            continue
        n = 0
        for p in GEN[g](tier):
            q = _kw_twin(p)
            if q is not None:
                n += 1
                if tier == "thorough" or g == "struct" or n % 7 == 0:
                    yield q


GEN["kwalias"] = kw_alias_programs
GEN["setop_embedded"] = setop_embedded_programs
GEN["reuse"] = reuse_programs


def expand(chunk):
    g = chunk["gen"]
    if g == "equiv":
        for a, b in equiv_pairs():
            yield {"k": "equiv", "a": a, "b": b}
        return
    if g == "expr":
        if "e" not in _P:
            _P["e"] = list(c06.triples())
        src = _P["e"]
        for i in range(chunk["part"], len(src), chunk["of"]):
            yield {"k": "expr", "e": src[i], "place": "select"}
            yield {"k": "expr", "e": src[i], "place": "where"}
        return
    key = (g, chunk["tier"])
    if key not in _P:
        _P[key] = list(GEN[g](chunk["tier"]))
    ps = _P[key]
    for i in range(chunk["part"], len(ps), chunk["of"]):
        yield {"k": g, "p": ps[i]}


# ---- engine -------------------------------------------------------------------------------------------------------------

T_POOL = [(1, 1, 2, "a"), (2, None, 5, "ab"), (3, 11, None, ""), (4, -1, 0, None), (5, 2, 2, "x")]
U_POOL = [(1, 1, 11, 5), (2, 2, 1, None), (3, 9, 2, "s"), (4, None, 0, 7), (5, 1, -1, 1)]
V_ROWS = [(1, 11), (2, 1), (3, None)]
SCHEMA = """CREATE TABLE t(id INTEGER PRIMARY KEY, a, b, s); CREATE TABLE u(id INTEGER, tid, x, y); CREATE TABLE v(id INTEGER, x);"""


def subsets(pool):
    out = [()]
    out += [(r,) for r in pool]
    out += list(itertools.combinations(pool, 2))
    return out


_eng = {}


def engine():
    if "db" not in _eng:
        db = sqlite3.connect(":memory:")
        db.executescript(SCHEMA)
        _eng["db"] = db
        fam = [(ts, us) for ts in subsets(T_POOL) for us in subsets(U_POOL)]
        fam.append((tuple(T_POOL), tuple(U_POOL)))
        _eng["family"] = fam
    return _eng["db"], _eng["family"]


def load(db, ts, us):
    db.execute("DELETE FROM t")
    db.execute("DELETE FROM u")
    db.execute("DELETE FROM v")
    db.executemany("INSERT INTO t VALUES (?,?,?,?)", ts)
    db.executemany("INSERT INTO u VALUES (?,?,?,?)", us)
    db.executemany("INSERT INTO v VALUES (?,?)", V_ROWS)


def bytecode(db, sql):
    return [r[1:7] for r in db.execute("EXPLAIN " + sql).fetchall()]


def run_on_family(db, fam, sql, refsql, ordered, is_dml):
    """-> None or (database, got, want)"""
    for ts, us in fam:
        load(db, ts, us)
        outs = []
        for s in (sql, refsql):
            db.execute("SAVEPOINT x")
            try:
                rows = db.execute(s).fetchall()
                if is_dml:
                    rows = db.execute("SELECT * FROM t ORDER BY id").fetchall()
                elif not ordered:
                    rows = sorted(rows, key=repr)
                outs.append(("ok", rows))
            except sqlite3.Error as e:
                outs.append(("err", str(e).split(":")[0]))
            finally:
                db.execute("ROLLBACK TO x")
                db.execute("RELEASE x")
        if outs[0] != outs[1]:
            return {"t": ts, "u": us}, outs[0], outs[1]
    return None


def check_equiv(res, sql, refsql, ordered, is_dml, sigbase, **detail):
    db, fam = engine()
    load(db, T_POOL, U_POOL)
    try:
        bc = bytecode(db, sql)
    except sqlite3.Error as e:
        # does the reference itself prepare?  if not, the program is outside the engine's language: harness problem
        try:
            bytecode(db, refsql)
        except sqlite3.Error as e2:
            res.extra["reference_rejected"] = res.extra.get("reference_rejected", 0) + 1
            res.extra.setdefault("reference_rejected_msgs", set()).add(str(e2)[:60])
            return
        res.violate(sigbase + "|engine-rejects", "SQLite rejects the rendered statement: %s" % e, sql=sql, reference=refsql, **detail)
        return
    try:
        rbc = bytecode(db, refsql)
    except sqlite3.Error as e2:
        res.extra["reference_rejected"] = res.extra.get("reference_rejected", 0) + 1
        res.extra.setdefault("reference_rejected_msgs", set()).add(str(e2)[:60])
        return
    res.transitions += 2
    if not is_dml and detail.get("program") is not None:
        # a select item given an alias is a result column of that name (the names are not part of the bytecode)
        names = _aliases_in(detail["program"])
        try:
            got_n = [d[0] for d in db.execute(sql).description]
            want_n = [d[0] for d in db.execute(refsql).description]
        except sqlite3.Error:
            got_n = want_n = []
        for i, (g_, w_) in enumerate(zip(got_n, want_n)):
            if w_ in names and g_ != w_:
                res.violate(sigbase + "|result-column-name", "result column %d is named %r; the select item was given the alias %r" % (i, g_, w_),
                            sql=sql, reference=refsql, **detail)
                return
    if bc == rbc:
        res.extra["identical_bytecode"] = res.extra.get("identical_bytecode", 0) + 1
        return
    res.extra["bytecode_differs_ran_family"] = res.extra.get("bytecode_differs_ran_family", 0) + 1
    bad = run_on_family(db, fam, sql, refsql, ordered, is_dml)
    res.transitions += 2 * len(fam)
    if bad:
        dbx, got, want = bad
        res.violate(sigbase + "|different-result", "rendered and reference statement give different results on a database",
                    sql=sql, reference=refsql, database=dbx, got=str(got)[:300], want=str(want)[:300], **detail)


def _aliases_in(p):
    out = set()

    def walk(x):
        if isinstance(x, list):
            if len(x) >= 3 and x[0] == "as" and isinstance(x[2], str):
                out.add(x[2])
            for y in x:
                walk(y)
        elif isinstance(x, dict):
            for y in x.values():
                walk(y)

    walk(p)
    return out


def clause_sig(p):
    """coarse clause fingerprint of a program for signatures"""
    ks = []
    for c in p["calls"]:
        k = c[0]
        if k == "join":
            k = "join_" + c[1] + ("_sub" if c[2][0] == "q" else "")
        if k == "from" and c[1][0] == "q":
            k = "from_sub"
        if k not in ks:
            ks.append(k)
    return "+".join(ks)


def run_case(case):
    res = Result()
    if case["k"] == "expr":
        e = case["e"]
        try:
            term = c06.T(e)
            r = c06.R(e)
        except (TypeError, AttributeError, ValueError):
            return res
        t = Table("ab")
        res.nontrivial = 1
        res.states.append(h64(repr((case["place"], e))))
        if case["place"] == "select":
            q = SQLLiteQuery.from_(t).select(term)
            refsql = 'SELECT %s FROM "ab"' % r
            ordered = False
        else:
            q = SQLLiteQuery.from_(t).select("a", "b").where(term)
            refsql = 'SELECT "a", "b" FROM "ab" WHERE %s' % r
            ordered = False
        sql = q.get_sql()
        res.outcomes.append(h64(sql))
        db = _eng.get("abdb")
        if db is None:
            db = sqlite3.connect(":memory:")
            db.execute("CREATE TABLE ab(a, b)")
            vals = [None, -2, -1, 0, 1, 2, 3]
            db.executemany("INSERT INTO ab VALUES (?,?)", [(x, y) for x in vals for y in vals])
            _eng["abdb"] = db
        res.transitions += 1
        try:
            want = sorted(db.execute(refsql).fetchall(), key=repr)
        except sqlite3.Error:
            res.extra["reference_rejected"] = res.extra.get("reference_rejected", 0) + 1
            return res
        try:
            got = sorted(db.execute(sql).fetchall(), key=repr)
        except sqlite3.Error as ex:
            got = "error: %s" % str(ex).split(":")[0]
        if got != want:
            def efails(x):
                try:
                    tx, rx = c06.T(x), c06.R(x)
                except (TypeError, AttributeError, ValueError):
                    return False
                try:
                    w = sorted(db.execute('SELECT %s FROM "ab"' % rx).fetchall(), key=repr)
                except sqlite3.Error:
                    return False
                try:
                    g = sorted(db.execute(SQLLiteQuery.from_(t).select(tx).get_sql()).fetchall(), key=repr)
                except sqlite3.Error:
                    return True
                return g != w

            m, sgs = c06.sig_for(e, "sqlite", efails if efails(e) else (lambda x: x is e))
            for sg in sgs:
                res.violate("C03|expr|%s" % sg, "expression in %s: SQLite gives another result for the rendered statement than for the "
                            "fully parenthesised transcription (minimal failing sub-tree %r)" % (case["place"], m),
                            tree=e, sql=sql, reference=refsql, got=str(got)[:200], want=str(want)[:200])
        return res
    if case["k"] == "equiv":
        res.nontrivial = 1
        res.states.append(h64(json.dumps(case["a"], sort_keys=True)))
        try:
            sa = prog.render(prog.build(case["a"], dialect=D), D)[0]
            sb = prog.render(prog.build(case["b"], dialect=D), D)[0]
        except Exception as e:
            res.violate("C03|equiv|build-raises|%s" % type(e).__name__, "the library raised for a program of the relational core", program=case["a"], error=str(e)[:200])
            return res
        res.transitions += 2
        res.outcomes.append(h64(sa))
        if sa != sb:
            res.violate("C03|equiv|by-name-differs", "a column given by name is not the column of the statement's first FROM table", by_name=sa, by_field=sb,
                        program=case["a"])
            return res
        db, _fam = engine()
        try:
            load(db, T_POOL[:3], U_POOL[:3])
            db.execute(sa).fetchall()
        except sqlite3.Error as e:
            res.violate("C03|equiv|engine-rejects", "SQLite rejects the statement: %s" % e, sql=sa, program=case["a"])
        return res
    p = case["p"]
    res.states.append(h64(json.dumps(p, sort_keys=True)))
    try:
        refsql = ref.stmt(p)
    except ref.RefError as e:
        res.extra["outside_core"] = res.extra.get("outside_core", 0) + 1
        return res
    try:
        o = prog.build(p, dialect=D)
        sql, _ = prog.render(o, D)
    except Exception as e:
        res.violate("C03|%s|build-raises|%s" % (case["k"], type(e).__name__), "the library raised for a program of the relational core",
                    program=p, reference=refsql, error=str(e)[:200])
        return res
    res.nontrivial = 1
    res.outcomes.append(h64(sql))
    kinds = [c[0] for c in p["calls"]]
    is_dml = any(k in kinds for k in ("into", "update", "delete"))
    ordered = "orderby" in kinds
    check_equiv(res, sql, refsql, ordered, is_dml, "C03|%s|%s" % (case["k"], clause_sig(p)), program=p)
    return res


def describe():
    return {
        "rule": "SELECT: Cartesian product of clause menus (FROM 3-4 shapes x JOIN 4-6 x select list 6-10 x WHERE 5-9 x GROUP BY "
                "none/column/alias + HAVING x DISTINCT x ORDER BY 4 x LIMIT/OFFSET 3) with validity filters; set operations: 4 "
                "operators, chains of 2 and 3 with ORDER BY/LIMIT; DML: INSERT rows x columns x 5 upsert forms, INSERT..SELECT, "
                "UPDATE 5 SET forms x 6 WHEREs, DELETE; expressions: every C06 parent/position/child triple in the select list and "
                "in WHERE; all through SQLLiteQuery; non-trivial = built; outcomes = distinct rendered statements",
        "bound": {"quick": "reduced menus (about 9k SELECTs)", "thorough": "full menus (about 60k SELECTs)"},
        "assumptions": ["identical EXPLAIN listing = same VDBE program = same rows in the same order on every database",
                        "when the listings differ: databases = every choice of <=2 rows per table for t and u from pools of 5 rows "
                        "with NULLs, zero, negatives, empty string (257 databases), ordered comparison with ORDER BY else multisets",
                        "reference transcription mc/ref.py; LIMIT only together with a total order"],
    }
