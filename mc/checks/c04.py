"""C04 — parameterised rendering is equivalent to inline rendering.

Exhaustive Cartesian product of clause menus (values in every clause and nesting construct) x statement kinds x
six dialect builders x value kinds.  Two-stream alignment oracle: get_parameterized_sql() and get_sql() of the
same object are lexed by the dialect's reference lexer and walked in lock-step: every non-placeholder token is
identical, every placeholder corresponds (in text order; PostgreSQL: numbered 1..n) to the inline literal
group that decodes to values[k]; no value is a builder object.  SQLite: both forms are executed.
"""
from __future__ import annotations

import datetime as dt
import decimal
import enum
import itertools
import json
import sqlite3
import uuid

from mc.common import Result, h64
from mc import fp, prog
from mc.lexer import LexError, lex
from mc.checks.c05 import group_matches

from pypika_tortoise.terms import Node

PROPERTY = "C04"

T, U, V = ["t", "t"], ["t", "u"], ["t", "v"]
fa, fb, fid = ["f", "t", "a"], ["f", "t", "b"], ["f", "t", "id"]
ux, uy, utid = ["f", "u", "x"], ["f", "u", "y"], ["f", "u", "tid"]


def raw(v):
    return ["raw", v]


# value kinds (JSON-able descriptors, see prog.pyval)
VALS = [5, -3, 2.5, ["$dec", "1.50"], "s'x", "pl%s?$1", True, False, ["$date", "2020-02-29"], ["$dt", "2021-12-31T23:59:59"],
        ["$time", "01:02:03"], ["$uuid", "12345678-1234-5678-1234-567812345678"], ["$dict", [["k", "v'"]]],
        ["$enum", "red"], ["$enum", "two"], "*", 0, "",
        # floats whose shortest text uses an exponent, very large / very small, negative zero, big ints
        2.5e-07, -4.25e-08, 1.5e+30, 1e-05, -0.0, 1234567890123456789]


def sub_with_value(v, key="sq"):
    return {"calls": [["from", U], ["select", [ux]], ["where", ["cmp", "=", uy, raw(v)]]]}


def select_programs(tier):
    v1, v2, v3, v4 = 11, "s'x", 2.5, 7
    sel = [[fa], [["lit", v1]], [["arith", "+", fa, raw(v1)], fb],
           [["case", [[["cmp", "=", fa, raw(v1)], raw(v2)]], raw(v3)]], [["coalesce", [fa, raw(v2)]], ["as", ["lit", v4], "x"]],
           [["array", [raw(v1), raw(v4)]]], [["as", ["array", [raw(v1), raw(v4)]], "arr"]], [["tuple", [raw(v1), fa]]]]
    where = [None, ["cmp", "=", fa, raw(v1)], ["in", fa, [raw(v1), raw(v2)]], ["between", fa, raw(v1), raw(v4)],
             ["insub", fa, sub_with_value(v2)], ["logic", "AND", ["cmp", ">", fa, raw(v1)], ["like", fb, "x%"]],
             ["cmp", "=", fa, ["subq", {"calls": [["from", U], ["select", [["agg", "MAX", ux]]], ["where", ["cmp", "<", uy, raw(v4)]]]}]],
             ["insub", fa, sub_with_value(v2), "not"],
             ["logic", "AND", ["cmp", ">", fa, raw(v1)], ["logic", "OR", ["insub", fb, sub_with_value(v3), "notin"], ["not", ["cmp", "=", fb, raw(v2)]]]]]
    joins = [None, ["join", "inner", U, ["on", ["logic", "AND", ["cmp", "=", fid, utid], ["cmp", "=", ux, raw(v3)]]]],
             ["join", "left", ["q", "sq", sub_with_value(v1), "sq"], ["on", ["cmp", "=", fid, ["f", "sq", "x"]]]],
             ["join", "inner", ["q", "sq", sub_with_value(v2), "sq"], ["on", ["logic", "AND", ["cmp", "=", fid, ["f", "sq", "x"]], ["cmp", "<", ["f", "sq", "x"], raw(v4)]]]]]
    group = [None, [["groupby", [fa]], ["having", ["cmp", ">", ["agg", "SUM", fb], raw(v4)]]]]
    order = [None, [fa], [["arith", "+", fa, raw(v1)]]]
    page = [[], [["limit", 3]], [["limit", 3], ["offset", 2]], [["offset", 2]]]
    frm = [T, ["q", "sq0", sub_with_value(v4, "sq0"), "sq0"]]
    cte = [None, ["with", "c1", sub_with_value(v2)]]
    if tier == "quick":
        sel, where, order, page = sel[:7], where[:6] + where[7:], order[:2], page[:3]
    for s, w, j, g, o, p, f, c in itertools.product(sel, where, joins, group, order, page, frm, cte):
        if f[0] == "q" and (j is not None and j[2][0] == "q"):
            continue
        calls = []
        if c:
            calls.append(c)
        calls.append(["from", f])
        if f[0] == "q":
            # fields must refer to the subquery source
            s2 = json.loads(json.dumps(s).replace('["f", "t", "a"]', '["f", "sq0", "x"]').replace('["f", "t", "b"]', '["f", "sq0", "x"]'))
            w2 = json.loads(json.dumps(w).replace('["f", "t", "a"]', '["f", "sq0", "x"]').replace('["f", "t", "b"]', '["f", "sq0", "x"]'))
            if j is not None or g is not None or o is not None:
                continue
            s, w = s2, w2
        if j:
            calls.append(j)
        calls.append(["select", s])
        if w:
            calls.append(["where", w])
        if g:
            calls += g
        if o:
            calls.append(["orderby", o, "desc"])
        calls += p
        yield {"calls": calls}


def dml_programs(tier):
    rows = [[raw(1), raw("a'b")], [raw(2.5), ["null"]], [["lit", 3], ["arith", "+", ["lit", 1], raw(2)]]]
    for r in rows:
        yield {"calls": [["into", T], ["insert", r]]}
        yield {"calls": [["into", T], ["columns", ["a", "b"]], ["insert_rows", [r, rows[0]]]]}
        for conf in ([["on_conflict", ["id"]], ["do_nothing"]],
                     [["on_conflict", ["id"]], ["do_update", "a", raw(9)]],
                     [["on_conflict", ["id"]], ["do_update", "a", raw("z'")], ["do_update", "b", None]],
                     [["on_conflict", ["id"]], ["do_update", "a", ["arith", "+", ["f", "t", "a"], raw(1)]]],
                     [["on_conflict", ["id"]], ["do_update", "a", raw(9)], ["where", ["cmp", ">", fa, raw(4)]]],
                     [["on_conflict", ["id"]], ["where", ["cmp", ">", fa, raw(4)]], ["do_update", "a", raw(9)]]):
            yield {"calls": [["into", T], ["insert", r]] + conf}
    yield {"calls": [["into", T], ["columns", ["a"]], ["from", U], ["select", [ux]], ["where", ["cmp", "=", uy, raw(5)]]]}
    yield {"calls": [["into", T], ["replace", [raw(1), raw("q")]]]}
    for w in (None, ["cmp", "=", fid, raw(3)], ["in", fa, [raw(1), raw("x")]]):
        base = [["update", T], ["set", "a", raw(1)], ["set", ["f", "t", "b"], ["arith", "+", fb, raw(2)]]]
        yield {"calls": base + ([["where", w]] if w else [])}
        yield {"calls": [["update", T], ["from", U], ["set", "a", ux]] + ([["where", w]] if w else [])}
        yield {"calls": [["update", T], ["join", "inner", U, ["on", ["cmp", "=", fid, utid]]], ["set", "a", raw("j")]] + ([["where", w]] if w else [])}
        yield {"calls": base + ([["where", w]] if w else []) + [["orderby", [fa], "asc"], ["limit", 4]]}
        yield {"calls": [["from", T], ["delete"]] + ([["where", w]] if w else [])}
    # PostgreSQL-only calls are simply disabled transitions elsewhere
    yield {"calls": [["into", T], ["insert", [raw(1), raw("r")]], ["returning", [["name", "id"], ["arith", "+", fa, raw(1)]]]]}
    yield {"calls": [["update", T], ["set", "a", raw(1)], ["where", ["cmp", "=", fid, raw(2)]], ["returning", [["name", "id"]]]]}
    yield {"calls": [["from", T], ["select", [fa]], ["where", ["cmp", "=", fa, raw(1)]], ["fetch_next", 5], ["offset", 2]]}
    yield {"calls": [["from", T], ["select", [fa]], ["where", ["cmp", "=", fa, raw(1)]], ["top", 5]]}
    yield from alias_reuse_programs()
    yield from multi_branch_programs()
    yield from chain_programs()
    yield {"calls": [["from", T], ["select", [fa, ["agg", "SUM", fb]]], ["where", ["cmp", "=", fa, raw(1)]],
                     ["groupby", [["as", ["arith", "+", fa, raw(2)], "g"]]], ["select", [["as", ["arith", "+", fa, raw(2)], "g"]]]]}


def alias_reuse_programs():
    """a value-carrying term that is selected under an alias and reused (same alias) in GROUP BY / ORDER BY / both: where
    the dialect prints only the alias there, the term's values must not be collected a second time"""
    terms = [["arith", "+", fa, raw(11)], ["case", [[["cmp", "=", fa, raw(11)], raw("s'x")]], raw(2.5)], ["coalesce", [fa, raw(7)]],
             ["arith", "*", ["arith", "+", fa, raw(11)], raw(3)]]
    for t in terms:
        al = ["as", t, "s1"]
        for extra in ([], [["where", ["cmp", ">", fb, raw(4)]]]):
            for tail in ([], [["limit", 3], ["offset", 2]]):
                yield {"calls": [["from", T], ["select", [al, fb]]] + extra + [["orderby", [al], "desc"]] + tail}
                yield {"calls": [["from", T], ["select", [fb, al]]] + extra + [["orderby", [fb], "asc"], ["orderby", [al], "asc"]] + tail}
                yield {"calls": [["from", T], ["select", [al, ["agg", "SUM", fb]]]] + extra + [["groupby", [al]]] + tail}
                yield {"calls": [["from", T], ["select", [al, ["agg", "SUM", fb]]]] + extra + [["groupby", [al]], ["orderby", [al], "asc"]] + tail}
                # the alias is not in the select list: the expression itself is printed (and its values collected once)
                yield {"calls": [["from", T], ["select", [fb]]] + extra + [["orderby", [al], "desc"]] + tail}
                yield {"calls": [["from", T], ["select", [["agg", "SUM", fb]]]] + extra + [["groupby", [al]]] + tail}
        yield {"calls": [["from", ["q", "sq0", {"calls": [["from", T], ["select", [al, fb]], ["orderby", [al], "desc"], ["limit", 5]]}, "sq0"]],
                         ["select", [["f", "sq0", "s1"]]], ["where", ["cmp", "=", ["f", "sq0", "s1"], raw(9)]]]}


def multi_branch_programs():
    """terms with several value-carrying branches / operands (CASE with 2-3 WHENs, nested CASE, functions with 3-4 arguments,
    IN lists, BETWEEN, tuples): the values must be collected in the order the placeholders are written"""
    c2 = ["case", [[["cmp", "=", fa, raw(11)], raw("s'x")], [["cmp", "=", fb, raw(7)], raw(2.5)]], raw(0)]
    c3 = ["case", [[["cmp", "=", fa, raw(1)], raw(10)], [["cmp", "=", fa, raw(2)], raw(20)], [["cmp", ">", fb, raw(3)], raw(30)]], raw(40)]
    c3n = ["case", [[["cmp", "=", fa, raw(1)], raw(10)], [["cmp", "=", fa, raw(2)], c2]], None]
    co = ["coalesce", [fa, raw(1), fb, raw("z")]]
    tp = ["tuple", [raw(1), fa, raw("m"), raw(2.5)]]
    for e in (c2, c3, c3n, co):
        yield {"calls": [["from", T], ["select", [e, fb]], ["where", ["cmp", ">", fb, raw(99)]]]}
        yield {"calls": [["from", T], ["select", [fb]], ["where", ["cmp", "=", e, raw(5)]], ["limit", 3]]}
        yield {"calls": [["from", T], ["select", [fb]], ["orderby", [e], "asc"], ["limit", 3], ["offset", 1]]}
        yield {"calls": [["update", T], ["set", "a", e], ["where", ["cmp", "=", fid, raw(3)]]]}
        yield {"calls": [["into", T], ["insert", [e, raw("tail")]]]}
        yield {"calls": [["from", T], ["select", [["agg", "SUM", e]]], ["groupby", [fb]], ["having", ["cmp", ">", ["agg", "MAX", e], raw(8)]]]}
    # aggregates with FILTER, window functions and DISTINCT ON whose parts all carry values
    af = ["aggf", "SUM", ["coalesce", [fa, raw(100)]], ["cmp", ">", fb, raw(1)]]
    wn = ["win", "SUM", [["arith", "+", fa, raw(7)]], [["arith", "*", fb, raw(2)]], [[["arith", "-", fa, raw(3)], "desc"], [["arith", "+", fb, raw(4)], "asc"]]]
    yield {"calls": [["from", T], ["select", [af, fb]], ["where", ["cmp", "=", fb, raw(5)]], ["groupby", [fb]]]}
    yield {"calls": [["from", T], ["select", [fb]], ["groupby", [fb]], ["having", ["cmp", ">", af, raw(9)]], ["limit", 2]]}
    yield {"calls": [["from", T], ["select", [["as", wn, "w"], fb]], ["where", ["cmp", "=", fb, raw(5)]]]}
    yield {"calls": [["from", T], ["distinct_on", [["arith", "+", fa, raw(31)], fb]], ["select", [["arith", "*", fa, raw(32)], ["lit", 33]]], ["where", ["cmp", "=", fb, raw(34)]]]}
    # DISTINCT aggregates over arguments that carry values
    for fn in ("COUNT", "SUM"):
        ad = ["agg", fn, ["arith", "+", fa, raw(10)], "distinct"]
        yield {"calls": [["from", T], ["select", [ad, fb]], ["where", ["cmp", "=", fb, raw(5)]], ["groupby", [fb]]]}
        yield {"calls": [["from", T], ["select", [fb]], ["groupby", [fb]], ["having", ["cmp", ">", ad, raw(9)]], ["limit", 2]]}
    # arrays that mix columns / expressions with constants
    for arr in (["array", [fa, raw(1)]], ["array", [raw(1), fa, raw("x")]], ["array", [["arith", "+", fa, raw(2)], fb]]):
        yield {"calls": [["from", T], ["select", [arr, fb]], ["where", ["cmp", "=", fb, raw(5)]]]}
        yield {"calls": [["from", T], ["select", [fb]], ["where", ["cmp", "=", fb, arr]], ["limit", 2]]}
        yield {"calls": [["from", T], ["select", [["as", arr, "arr"]]], ["where", ["cmp", ">", fa, raw(0)]]]}
    yield {"calls": [["from", T], ["select", [tp]], ["where", ["logic", "AND", ["between", fa, raw(1), raw(9)], ["in", fb, [raw("p"), raw("q"), raw("r")]]]]]}
    yield {"calls": [["from", T], ["select", [fa]], ["where", ["logic", "OR", ["logic", "AND", ["cmp", "=", fa, raw(1)], ["cmp", "=", fb, raw(2)]],
                                                                ["logic", "AND", ["cmp", "=", fa, raw(3)], ["not", ["cmp", "=", fb, raw(4)]]]]]]}


def chain_programs():
    """connective chains of length 3-5 whose conjuncts all carry distinct values: left-deep, right-deep and balanced trees of one
    connective, mixed connectives, and the same chain built by repeated where() / having() calls; in WHERE, HAVING, ON, CASE WHEN,
    FILTER, UPDATE and DELETE"""
    cols = [fa, fb, fa, fb, fa]
    ops = ["=", ">", "<", ">=", "<>"]
    vals = [1, "x'y", 3, 40.5, 77]

    def leaf(i):
        return ["cmp", ops[i], cols[i], raw(vals[i])]

    def left_deep(op, n):
        e = leaf(0)
        for i in range(1, n):
            e = ["logic", op, e, leaf(i)]
        return e

    def right_deep(op, n):
        e = leaf(n - 1)
        for i in range(n - 2, -1, -1):
            e = ["logic", op, leaf(i), e]
        return e

    trees = []
    for op in ("AND", "OR"):
        for n in (3, 4, 5):
            trees += [left_deep(op, n), right_deep(op, n)]
        trees.append(["logic", op, ["logic", op, leaf(0), leaf(1)], ["logic", op, leaf(2), leaf(3)]])
    trees.append(["logic", "OR", left_deep("AND", 3), leaf(3)])
    trees.append(["logic", "AND", ["logic", "AND", ["logic", "OR", leaf(0), leaf(1)], leaf(2)], leaf(3)])
    trees.append(["not", left_deep("AND", 3)])
    for e in trees:
        yield {"calls": [["from", T], ["select", [fa]], ["where", e], ["limit", 3]]}
        yield {"calls": [["from", T], ["select", [["agg", "SUM", fa]]], ["groupby", [fb]], ["having", e]]}
        yield {"calls": [["from", T], ["join", "inner", U, ["on", ["logic", "AND", ["cmp", "=", fid, utid], e]]], ["select", [fa]], ["where", ["cmp", "=", fb, raw(99)]]]}
        yield {"calls": [["from", T], ["select", [["case", [[e, raw(10)]], raw(20)], fb]], ["where", ["cmp", "=", fb, raw(99)]]]}
        yield {"calls": [["from", T], ["select", [["aggf", "SUM", fa, e], fb]], ["groupby", [fb]]]}
        yield {"calls": [["update", T], ["set", "a", raw(5)], ["where", e]]}
        yield {"calls": [["from", T], ["delete"], ["where", e]]}
    for n in (3, 4, 5):
        yield {"calls": [["from", T], ["select", [fa]]] + [["where", leaf(i)] for i in range(n)] + [["limit", 3]]}
        yield {"calls": [["from", T], ["select", [["agg", "SUM", fa]]], ["groupby", [fb]]] + [["having", leaf(i)] for i in range(n)]}
        yield {"calls": [["update", T], ["set", "a", raw(5)]] + [["where", leaf(i)] for i in range(n)]}


def setop_programs(tier):
    def q(v, lim=None):
        c = [["from", T], ["select", [fa]], ["where", ["cmp", "=", fb, raw(v)]]]
        if lim:
            c.append(["limit", lim])
        return {"calls": c}

    for op in prog.SETOPS:
        yield {"calls": q(1)["calls"] + [[op, q("x'")]]}
    yield {"calls": q(1)["calls"] + [["union", q(2)], ["intersect", q(3.5)], ["orderby", [fa], "asc"], ["limit", 5], ["offset", 1]], "setop_chain": True}
    yield {"calls": [["from", ["q", "so", {"calls": q(1)["calls"] + [["union_all", q(2)]]}, "so"]], ["select", [["f", "so", "a"]]],
                     ["where", ["cmp", ">", ["f", "so", "a"], raw(0)]]]}
    yield {"calls": [["from", T], ["select", [fa]], ["where", ["insub", fa, {"calls": q(1, 2)["calls"] + [["union", q(2)]]}]]]}


def value_sweep(tier):
    """every value kind at a few representative slots"""
    for v in VALS:
        yield {"calls": [["from", T], ["select", [fa, ["lit", v]]], ["where", ["cmp", "=", fa, raw(v)]]]}
        yield {"calls": [["from", T], ["select", [fa]], ["where", ["in", fa, [raw(v), raw(1)]]]]}
        yield {"calls": [["into", T], ["insert", [raw(v), ["lit", v]]]]}
        yield {"calls": [["update", T], ["set", "a", raw(v)], ["where", ["cmp", "<>", fb, ["valnp", "np'sentinel"]]]]}
        yield {"calls": [["from", T], ["select", [["valnp", 424242], fa]], ["where", ["in", fa, [raw(v), ["valnp", 424242]]]]]}
        yield {"calls": [["from", T], ["select", [["coalesce", [fa, raw(v)]], ["case", [[["cmp", "=", fa, raw(v)], raw(v)]], raw(v)]]]]}
        yield {"calls": [["from", T], ["select", [fa]], ["where", ["cmp", "=", fa, raw(v)]], ["union", {"calls": [["from", U], ["select", [ux]], ["where", ["cmp", "=", uy, raw(v)]]]}]]}
    # one criterion / function / CASE / subquery used in two places of a statement (shared-object mode makes them one object)
    C = ["cmp", "=", fa, raw(5)]
    SUBP = {"calls": [["from", U], ["select", [ux]], ["where", ["cmp", "=", uy, raw("s")]], ["limit", 2]]}
    F = ["coalesce", [fb, raw(7)]]
    K = ["case", [[C, raw("hit")]], raw("miss")]
    yield {"calls": [["from", T], ["select", [fa]], ["where", C], ["groupby", [fa]], ["having", C]]}
    yield {"calls": [["from", T], ["select", [fa]], ["where", C], ["where", C]]}
    # members that occur more than once in an IN list / tuple / row
    yield {"calls": [["from", T], ["select", [fa]], ["where", ["logic", "AND", ["in", fa, [raw(3), raw(5), raw(3), raw(8), raw(5)]],
                                                               ["in", fb, [raw("a"), raw("b"), raw("a")], True]]]]}
    yield {"calls": [["from", T], ["select", [["tuple", [raw(1), raw(1), fa]]]], ["where", ["in", fa, [raw(7), raw("7"), raw(7.0)]]]]}
    yield {"calls": [["into", T], ["insert", [raw(1), raw(1), raw("1")]]]}
    yield {"calls": [["from", T], ["select", [fa, K]], ["where", ["logic", "OR", C, ["cmp", "=", K, raw("hit")]]]]}
    yield {"calls": [["from", T], ["select", [F]], ["where", ["cmp", ">", F, raw(1)]], ["orderby", [F], "asc"]]}
    yield {"calls": [["from", T], ["select", [fa]], ["where", ["logic", "AND", ["insub", fa, SUBP], ["insub", fb, SUBP]]]]}
    yield {"calls": [["from", T], ["select", [fa, ["subq", SUBP]]], ["where", ["cmp", "=", fb, ["subq", SUBP]]]]}
    yield {"calls": [["from", T], ["select", [["lit", 5], ["lit", 5], ["arith", "+", ["lit", 5], ["lit", 5]]]], ["where", ["between", fa, ["lit", 5], ["lit", 5]]]]}
    yield {"calls": [["from", T], ["select", [fa]], ["where", C], ["union", {"calls": [["from", T], ["select", [fa]], ["where", C]]}], ["union_all", {"calls": [["from", T], ["select", [fa]], ["where", C]]}]]}
    # row-limiting values given as terms (a wrapper that must stay inline, an expression over constants)
    for e in (["valnp", 3], ["arith", "*", ["lit", 2], ["raw", 5]], ["lit", 4]):
        yield {"calls": [["from", T], ["select", [fa]], ["where", ["cmp", "=", fa, raw(7)]], ["limit", e]]}
        yield {"calls": [["from", T], ["select", [fa]], ["where", ["cmp", "=", fa, raw(7)]], ["limit", ["lit", 9]], ["offset", e]]}
    # inline text that looks like a placeholder: a constant that is not parameterised, an identifier, a LIKE pattern
    for txt in ("why?", "100%s", "$1", ":p", "?"):
        yield {"calls": [["from", T], ["select", [fa, ["valnp", txt]]], ["where", ["cmp", "=", fb, raw(2)]]]}
        yield {"calls": [["from", T], ["select", [["as", fa, txt]]], ["where", ["logic", "AND", ["cmp", "=", ["f", "t", txt], raw(2)], ["like", fb, txt]]]]}
    # a subquery built through another dialect's class: one placeholder style, one numbering, one value list
    for qc in ("mysql", "postgresql", "generic", "sqlite"):
        inner = {"calls": [["from", U], ["select", [ux]], ["where", ["cmp", "=", uy, raw("v'")]], ["limit", 3]], "q": qc}
        yield {"calls": [["from", T], ["select", [fa]], ["where", ["logic", "AND", ["cmp", "=", fa, raw(1)],
                                                                   ["logic", "AND", ["insub", fb, inner], ["cmp", ">", fid, raw(4)]]]]]}
        yield {"calls": [["from", ["q", "sq0", inner, "sq0"]], ["select", [["f", "sq0", "x"], ["lit", 5]]], ["where", ["cmp", "<", ["f", "sq0", "x"], raw(6)]]]}
        yield {"calls": [["from", T], ["join", "inner", ["q", "sq", inner, "sq"], ["on", ["cmp", "=", fid, ["f", "sq", "x"]]]], ["select", [fa]],
                         ["where", ["cmp", "=", fa, raw(8)]], ["union", {"calls": [["from", U], ["select", [ux]], ["where", ["cmp", "=", uy, raw(9)]]], "q": qc}]]}
    # boundary values of the row-limiting calls (zero, equal to each other, equal to a constant elsewhere in the statement)
    for lim, off in itertools.product([None, 0, 1, 5], [None, 0, 5]):
        if lim is None and off is None:
            continue
        page = ([["limit", lim]] if lim is not None else []) + ([["offset", off]] if off is not None else [])
        yield {"calls": [["from", T], ["select", [fa]], ["where", ["cmp", "=", fa, raw(5)]]] + page}
        yield {"calls": [["from", T], ["select", [fa]], ["where", ["cmp", "=", fa, raw(0)]]] + page[::-1]}
        yield {"calls": [["from", T], ["select", [fa]], ["union", {"calls": [["from", U], ["select", [ux]], ["where", ["cmp", "=", uy, raw(5)]]]}]] + page}
        yield {"calls": [["from", T], ["select", [fa]], ["where", ["insub", fa, {"calls": [["from", U], ["select", [ux]], ["orderby", [ux], "asc"]] + page}]],
                         ["limit", 5]]}
    for a, b in ((0, 0), (0, 3), (0, None), (None, 0), (3, 3)):
        yield {"calls": [["from", T], ["select", [fa]], ["where", ["cmp", "<", fa, raw(3)]], ["slice", a, b]]}
    yield {"calls": [["from", T], ["select", [["array", [raw(1), raw("a")]], ["json", ["$dict", [["k", 1]]]], ["interval", {"days": 1}]]]]}
    yield {"calls": [["from", T], ["select", [fa]], ["where", ["cmp", "=", fb, raw(["$list", [1, None, "x"]])]]]}
    yield {"calls": [["from", T], ["select", [["array", [raw(1), ["null"]]], ["array", [raw(["$list", [1, 2]]), raw(["$list", [3, None]])]]]]]}
    yield {"calls": [["into", T], ["insert", [raw(["$list", [["$list", [1, 2]], ["$list", [None]]]]), raw(0)]]]}
    yield {"calls": [["from", T], ["select", [["extract", "year", fa], ["cast", raw(5), "INTEGER"]]], ["where", ["cmp", "=", ["extract", "day", ["lit", ["$date", "2020-01-02"]]], raw(2)]]]}
    yield {"calls": [["from", T], ["select", [fa]], ["where", ["jsonop", "get_json_value", ["f", "t", "j"], "k'"]]]}
    yield {"calls": [["from", T], ["select", [fa]], ["where", ["jsonop", "contains", ["f", "t", "j"], ["$dict", [["a", 1]]]]]]}
    yield {"calls": [["from", T], ["select", [["win", "SUM", [fa], [fb], [[fid, "asc"]]]]], ["where", ["cmp", ">", fa, raw(1)]]]}
    yield {"calls": [["from", T], ["select", [["aggf", "SUM", fa, ["cmp", ">", fb, raw(3)]]]]]}
    yield {"calls": [["from", T], ["select", [fa]], ["where", ["bitand", fa, 4]]]}
    yield {"calls": [["from", T], ["select", [["param", ":p"]]], ["where", ["cmp", "=", fa, raw(3)]]]}


GEN = {"select": select_programs, "dml": dml_programs, "setop": setop_programs, "values": value_sweep}


def chunks(tier, seed):
    out = []
    for d in fp.CTX:
        for g in GEN:
            n = 32 if g == "select" else 1
            for i in range(n):
                out.append({"d": d, "gen": g, "part": i, "of": n, "tier": tier})
    return out


_PROGS = {}


def expand(chunk):
    key = (chunk["gen"], chunk["tier"])
    if key not in _PROGS:
        _PROGS[key] = list(GEN[chunk["gen"]](chunk["tier"]))
    ps = _PROGS[key]
    for i in range(chunk["part"], len(ps), chunk["of"]):
        yield {"d": chunk["d"], "p": ps[i]}


# ---- oracle -----------------------------------------------------------------------------------------------------


def alts_for(v, d):
    if isinstance(v, bool):
        return [[("WORD", "TRUE" if v else "FALSE")], [("NUM", 1 if v else 0)]]
    if v is None:
        return [[("WORD", "NULL")]]
    if isinstance(v, enum.Enum):
        return alts_for(v.value, d)
    if isinstance(v, (int, float, decimal.Decimal)):
        neg = v < 0 or str(v).startswith("-")
        return [([("OP", "-")] if neg else []) + [("NUM", -v if neg else v)]]
    if isinstance(v, str):
        return [[("STR", v)]]
    if isinstance(v, (dt.date, dt.time)):
        a = [[("STR", v.isoformat())]]
        if d == "mysql" and isinstance(v, dt.time) and v.tzinfo is not None:
            a.append([("STR", v.replace(tzinfo=None).isoformat())])
        return a
    if isinstance(v, uuid.UUID):
        return [[("STR", str(v))]]
    if isinstance(v, dict):
        return [[("JSON", v)]]
    return None


def match_value(inl, j, v, d):
    """-> new j after consuming the inline literal group of value v, or None"""
    if isinstance(v, list):
        # array literal: [e1,e2] or ARRAY[e1,e2] or '{}' ; or JSON text when the list was wrapped as a value
        if j < len(inl) and inl[j].kind == "STR":
            try:
                return j + 1 if json.loads(inl[j].value) == v or (v == [] and inl[j].value == "{}") else None
            except Exception:
                return None
        if j < len(inl) and inl[j].kind == "WORD" and inl[j].value == "ARRAY":
            j += 1
        if not (j < len(inl) and inl[j].kind == "OP" and inl[j].text == "["):
            return None
        j += 1
        for n, x in enumerate(v):
            if n:
                if not (j < len(inl) and inl[j].kind == "OP" and inl[j].text == ","):
                    return None
                j += 1
            j = match_value(inl, j, x, d)
            if j is None:
                return None
        if not (j < len(inl) and inl[j].kind == "OP" and inl[j].text == "]"):
            return None
        return j + 1
    alts = alts_for(v, d)
    if alts is None:
        return None
    for alt in alts:
        if group_matches(inl[j:j + len(alt)], [alt]):
            return j + len(alt)
    return None


def expected_values(node, out):
    """values the program hands to the library as plain data at parameterisable positions (reference model of
    'what must end up in the value list'); exempt kinds are left out."""
    if isinstance(node, dict):
        for c in node.get("calls", []):
            expected_values(c, out)
        return
    if not isinstance(node, list) or not node:
        return
    tag = node[0]
    if tag in ("raw", "lit") and len(node) == 2:
        v = prog.pyval(node[1])
        if not (isinstance(v, enum.Enum) or (isinstance(v, str) and v == "*")):
            out.append(v)
        return
    if tag == "like":
        expected_values(node[1], out)
        out.append(node[2])
        return
    if tag == "array":
        def elem(x):
            if x[0] == "null":
                return None
            if x[0] == "array":
                return [elem(y) for y in x[1]]
            return prog.pyval(x[1])

        def plain(x):
            return x[0] in ("null", "raw", "lit") or (x[0] == "array" and all(plain(y) for y in x[1]))

        if all(plain(x) for x in node[1]):
            out.append([elem(x) for x in node[1]])
        else:
            # an array with a column / expression among its elements is not one value: its constants are values on their own
            for x in node[1]:
                expected_values(x, out)
        return
    if tag in ("valnp", "json", "interval", "param", "literal", "f", "col", "name", "t", "cte", "sym", "columns",
               "force_index", "use_index", "for_update", "top", "modifier", "star", "null"):
        if tag == "t":
            return
        return
    if tag == "bitand":
        expected_values(node[1], out)
        return
    if tag == "extract":
        expected_values(node[2], out)
        return
    if tag == "cast":
        expected_values(node[1], out)
        return
    if tag == "jsonop":
        expected_values(node[2], out)
        v = prog.pyval(node[3])
        if isinstance(v, (str, int)) and not isinstance(v, bool):
            out.append(v)
        return
    if tag in ("limit", "offset", "fetch_next") and len(node) == 2 and isinstance(node[1], int):
        out.append(node[1])
        return
    if tag == "slice":
        out.extend(x for x in node[1:3] if x is not None)
        return
    if tag == "q" and len(node) >= 3 and isinstance(node[2], dict):
        expected_values(node[2], out)
        return
    for x in node[1:] if isinstance(tag, str) else node:
        if isinstance(x, (list, dict)):
            expected_values(x, out)


def has_node(v):
    if isinstance(v, (list, tuple)):
        return any(has_node(x) for x in v)
    if isinstance(v, dict):
        return any(has_node(x) for x in v.values())
    return isinstance(v, Node) or hasattr(v, "get_sql")


_db = None


def _sqlite():
    global _db
    if _db is None:
        _db = sqlite3.connect(":memory:")
        _db.executescript("""
        CREATE TABLE t(id INTEGER, a, b, s, j); CREATE TABLE u(id INTEGER, tid, x, y); CREATE TABLE v(id INTEGER, x);
        INSERT INTO t VALUES (1,11,2,'x','{}'),(2,5,NULL,'s''x','{}'),(3,NULL,7,'','{}'),(4,11,11,'a','{}');
        INSERT INTO u VALUES (1,1,11,'s''x'),(2,2,5,7),(3,3,2.5,NULL),(4,9,11,11);
        INSERT INTO v VALUES (1,11),(2,5);
        """)
    return _db


PAR_STYLE = {"generic": "?", "sqlite": "?", "mssql": "?", "oracle": "?", "mysql": "%s", "postgresql": "$"}


def clause_of(toks, idx):
    """nearest preceding top-level-ish keyword: coarse position class for the signature"""
    for t in reversed(toks[:idx]):
        if t.kind == "WORD" and t.value in ("SELECT", "WHERE", "ON", "HAVING", "VALUES", "SET", "LIMIT", "OFFSET", "FETCH",
                                            "BY", "UNION", "INTERSECT", "EXCEPT", "MINUS", "RETURNING", "UPDATE", "CONFLICT",
                                            "KEY", "WITH", "FROM", "IN", "THEN", "ELSE", "WHEN", "TOP"):
            return t.value
    return "START"


def run_case(case):
    res = Result()
    d, p = case["d"], case["p"]
    try:
        o = prog.build(p, dialect=d)
    except Exception as e:
        specific = {"returning": ("postgresql",), "fetch_next": ("mssql",), "top": ("mssql",), "distinct_on": ("postgresql",)}
        calls = {c[0] for c in p["calls"]}
        bare_list_row = any(c[0] == "insert" and c[1] and c[1][0][0] == "raw" and isinstance(c[1][0][1], list) and c[1][0][1][:1] == ["$list"]
                            for c in p["calls"])  # insert(<list>, ...): a bare list in first place is a row, not a value
        if bare_list_row or any(k in calls and d not in ds for k, ds in specific.items()):
            res.extra["disabled_programs"] = 1  # a call that only another dialect's builder has
            res.extra.setdefault("disabled_kinds", set()).add(type(e).__name__)
            return res
        res.nontrivial = 1
        res.violate("C04|%s|build-raises|%s" % (d, type(e).__name__), "a valid program of the menu was rejected while it was built",
                    program=p, dialect=d, error=str(e)[:200])
        return res
    lexd = "sqlite" if d == "generic" else d
    try:
        sql_i, _ = prog.render(o, d)
    except Exception as e:
        sql_i = None
        err_i = type(e).__name__
    try:
        sql_p, vals = prog.render(o, d, param=True)
    except Exception as e:
        sql_p, vals = None, None
        err_p = type(e).__name__
    res.transitions += 2
    if d == "generic" and sql_p is not None and callable(getattr(type(o), "get_parameterized_sql", None)):
        # the explicit-context channel: get_parameterized_sql(ctx) == get_sql(ctx + parameterizer), for every dialect's context
        from pypika_tortoise.terms import Parameterizer

        for d2, ctx2 in fp.CTX.items():
            try:
                a_sql, a_vals = prog.build(p, dialect=d).get_parameterized_sql(ctx2)
                pz = Parameterizer()
                b_sql = prog.build(p, dialect=d).get_sql(ctx2.copy(parameterizer=pz))
                b_vals = pz.values
            except Exception:
                continue
            res.transitions += 2
            if (a_sql, fp.vrepr(a_vals)) != (b_sql, fp.vrepr(b_vals)):
                res.violate("C04|explicit-context|%s" % d2, "get_parameterized_sql(ctx) differs from get_sql(ctx carrying a parameterizer)",
                            program=p, context=d2, got=a_sql, expected=b_sql, got_values=fp.vrepr(a_vals), expected_values=fp.vrepr(b_vals))
                break
    if sql_i is not None and sql_p is not None:
        # caller-supplied parameterizers: a placeholder factory only changes the spelling of the k-th placeholder; a parameterizer
        # that declines every value gives the inline rendering and no values
        from pypika_tortoise.terms import Parameterizer

        class _Never(Parameterizer):
            def should_parameterize(self, value):
                return False

        try:
            pz1 = Parameterizer(placeholder_factory=lambda k: ":v%d" % k)
            c_sql = prog.build(p, dialect=d).get_sql(fp.CTX[d].copy(parameterizer=pz1))
            pz2 = _Never()
            n_sql = prog.build(p, dialect=d).get_sql(fp.CTX[d].copy(parameterizer=pz2))
            res.transitions += 2
            want, last, k = [], 0, 0
            for t in lex(sql_p, lexd):
                if t.kind == "PAR":
                    k += 1
                    want.append(sql_p[last:t.start] + ":v%d" % (t.value if isinstance(t.value, int) and d == "postgresql" else k))
                    last = t.end
            want = "".join(want) + sql_p[last:]
            if callable(getattr(type(o), "get_parameterized_sql", None)):
                # the caller's parameterizer handed over in the context of get_parameterized_sql(): it is the one that is used
                pz3 = Parameterizer(placeholder_factory=lambda k: ":v%d" % k)
                g_sql, g_vals = prog.build(p, dialect=d).get_parameterized_sql(fp.CTX[d].copy(parameterizer=pz3))
                res.transitions += 1
                if g_sql != c_sql or fp.vrepr(g_vals) != fp.vrepr(pz1.values) or fp.vrepr(pz3.values) != fp.vrepr(pz1.values):
                    res.violate("C04|caller-parameterizer-ignored|%s" % d, "get_parameterized_sql(ctx) does not use the (still empty) parameterizer "
                                "the caller put into ctx", program=p, dialect=d, got=g_sql, expected=c_sql, got_values=fp.vrepr(g_vals),
                                callers_values=fp.vrepr(pz3.values))
            if c_sql != want or fp.vrepr(pz1.values) != fp.vrepr(vals):
                res.violate("C04|placeholder-factory|%s" % d, "with a placeholder factory the statement is not the default parameterised statement with "
                            "the k-th placeholder respelled (or the values differ)", program=p, dialect=d, got=c_sql, expected=want,
                            got_values=fp.vrepr(pz1.values), expected_values=fp.vrepr(vals))
            elif n_sql != sql_i or pz2.values:
                res.violate("C04|declining-parameterizer|%s" % d, "a parameterizer that declines every value does not give the inline rendering",
                            program=p, dialect=d, got=n_sql, expected=sql_i, got_values=fp.vrepr(pz2.values))
        except LexError:
            pass
        except Exception as e:
            res.violate("C04|custom-parameterizer|%s|raises|%s" % (d, type(e).__name__), "rendering with a caller-supplied parameterizer raised",
                        program=p, dialect=d, error=str(e)[:200])
    # the same program with every repeated sub-expression / subquery being one shared object
    sd = prog.shared_objects_diff(p, d)
    res.transitions += 6
    if sd is not None:
        res.violate("C04|shared-objects|%s" % d, "the statement (or its parameter list) changes when equal sub-expressions are one shared object",
                    program=p, dialect=d, **sd)
    if sql_i is None or sql_p is None:
        if (sql_i is None) != (sql_p is None):
            res.violate("C04|%s|raises-one-form" % d, "one of the two renderings raises, the other does not", program=p, dialect=d)
        return res
    res.nontrivial = 1 if vals else 0
    res.states.append(h64(json.dumps(p, sort_keys=True)))
    res.outcomes.append(h64(sql_p))
    kind = type(o).__name__
    try:
        tp, ti = lex(sql_p, lexd), lex(sql_i, lexd)
    except LexError as e:
        res.violate("C04|%s|unlexable" % d, "a rendering does not lex", program=p, dialect=d, sql_p=sql_p, sql_i=sql_i, error=str(e))
        return res

    def V(symptom, idx, what, **kw):
        res.violate("C04|%s|%s|%s" % (symptom, clause_of(tp, idx), d if symptom in ("style", "numbering") else "any"), what,
                    program=p, dialect=d, sql_p=sql_p, sql_i=sql_i, values=fp.vrepr(vals), **kw)

    # (2) values are plain data
    for n, v in enumerate(vals):
        if has_node(v):
            pidx = [i for i, t in enumerate(tp) if t.kind == "PAR"]
            V("builder-object-in-values", pidx[n] if n < len(pidx) else len(tp), "values[%d] is a query-builder object: %s" % (n, fp.vrepr(v)))
            return res
    # (2c) every plain value the program supplied at a parameterisable position is in the list (the
    # parameterizer must travel through every nested render)
    exp = []
    expected_values(p, exp)
    have = [fp.vrepr(v) for v in vals]
    for v in exp:
        r = fp.vrepr(v)
        if r in have:
            have.remove(r)
        else:
            # not in the list: fine if the clause holding it is not rendered at all by this builder; a violation if
            # its literal is still in the parameterised text
            hits = [i for i, t in enumerate(tp) if match_value(tp, i, v, lexd) is not None
                    and not (isinstance(v, (int, float)) and not isinstance(v, bool) and v == 0)]
            if not hits:
                continue
            idx = hits[0]
            V("value-left-inline", idx, "the value %s supplied by the program is not in the parameter list "
              "(still inline in the parameterised SQL)" % r)
            return res
    # (2b) values exempt by contract are never parameterised
    for n, v in enumerate(vals):
        if isinstance(v, enum.Enum) or (isinstance(v, str) and v in ("*", "np'sentinel")) or v == 424242:
            V("exempt-value-parameterised", 0, "values[%d]=%s is exempt by contract (enum member / '*' / allow_parametrize=False) "
              "but was parameterised" % (n, fp.vrepr(v)))
            return res
    # (1)+(3) alignment
    i = j = k = 0
    style = PAR_STYLE[d]
    while i < len(tp):
        t = tp[i]
        is_par = t.kind == "PAR" and not (j < len(ti) and ti[j].kind == "PAR" and ti[j].text == t.text and t.text == ":p")
        if t.kind == "PAR" and j < len(ti) and ti[j].kind == "PAR" and k >= len(vals):
            is_par = False
        if is_par:
            if not t.text.startswith(style):
                V("style", i, "placeholder %r is not in the dialect's style %r" % (t.text, style))
                return res
            if d == "postgresql" and t.value != k + 1:
                V("numbering", i, "placeholder %s is number %d in text order" % (t.text, k + 1))
                return res
            if k >= len(vals):
                V("count", i, "more placeholders than values")
                return res
            nj = match_value(ti, j, vals[k], lexd)
            if nj is None:
                V("misaligned", i, "placeholder %d (%s) does not stand where the inline SQL has the literal of values[%d]=%s"
                  % (k + 1, t.text, k, fp.vrepr(vals[k])), inline_tokens=[x.text for x in ti[j:j + 4]])
                return res
            j = nj
            i += 1
            k += 1
            continue
        if j >= len(ti) or (t.kind, t.value) != (ti[j].kind, ti[j].value):
            # foreign-style placeholder look-alike in the parameterised text that is not in the inline text
            V("token-mismatch", i, "token %r of the parameterised SQL differs from inline token %r" % (t.text, ti[j].text if j < len(ti) else None))
            return res
        i += 1
        j += 1
    if j != len(ti) or k != len(vals):
        V("count", len(tp), "streams end differently: %d/%d inline tokens consumed, %d/%d values used" % (j, len(ti), k, len(vals)))
        return res
    # (5) SQLite executes both forms
    if d == "sqlite" and all(isinstance(v, (int, float, str, type(None))) for v in vals) and kind != "CreateQueryBuilder":
        db = _sqlite()
        out = []
        for sql, args in ((sql_i, []), (sql_p, vals)):
            try:
                db.execute("SAVEPOINT s")
                cur = db.execute(sql, args)
                rows = cur.fetchall()
                tabs = [db.execute("SELECT * FROM %s ORDER BY rowid" % tb).fetchall() for tb in "tuv"]
                out.append(("ok", rows, tabs))
            except (sqlite3.Error, OverflowError) as e:
                out.append(("err", type(e).__name__))
            finally:
                db.execute("ROLLBACK TO s")
                db.execute("RELEASE s")
        res.transitions += 2
        res.extra["sqlite_executions"] = 2
        if out[0] != out[1] and not (out[0][0] == "err" and out[1][0] == "err"):
            V("engine", 0, "SQLite gives different results for the inline and the parameterised form", inline=str(out[0])[:300], param=str(out[1])[:300])
    return res


def describe():
    return {
        "rule": "programs = Cartesian product of clause menus for SELECT (select list x where x join x group/having x "
                "order x pagination x from x cte), DML/upsert/returning menus, set-operation menus, and a sweep of 18 "
                "value kinds over 6 slots; x six dialect builders; non-trivial = the parameter list is non-empty; "
                "distinct = distinct programs; outcomes = distinct parameterised SQL",
        "bound": {"quick": "reduced SELECT menus (6x6x3x2x2x3x2x2)", "thorough": "full SELECT menus (8x7x3x2x3x4x2x2)"},
        "assumptions": ["dialect lexers of mc/lexer.py; value decoding as in C05",
                        "a user-supplied Parameter term is not a parameterised value",
                        "SQLite execution only for bindable value types"],
    }
