"""C05 — inlined values are single literal tokens that decode to the original value.

Bounded-exhaustive sweep: all strings of length <= 2 (thorough <= 3) over an adversarial alphabet, numbers,
temporal values, UUIDs, enums and JSON values x every value position x six dialect builders.  Differential +
decoding oracle: the token stream with value V and with a benign value of the same kind must be identical
except for one literal token group, which must decode (dialect's reference lexer) to V.  SQLite: the engine
evaluates the emitted literal.
"""
from __future__ import annotations

import datetime as dt
import decimal
import enum
import itertools
import json
import sqlite3
import uuid

from mc.common import Result, h64
from mc import fp
from mc.lexer import LexError, lex

from pypika_tortoise import JSON, Array, Case, Query, Table, Tuple
from pypika_tortoise import functions as FN
from pypika_tortoise.queries import Column
from pypika_tortoise.terms import ValueWrapper

PROPERTY = "C05"

ALPHA = ["a", "'", '"', "\\", "`", "-", "/", "*", "?", "%", "s", "$", "1", ";", " ", "\n", "\0", "é",
         "\U0001f600", "{", "}", ":", "[", "]"]


class SEnum(enum.Enum):
    q = "it's"
    b = "b\\"


class IEnum(enum.Enum):
    n = -7


class StrMixin(str, enum.Enum):
    red = "r'ed"


class IntMixin(enum.IntEnum):
    five = 5


TZ = dt.timezone(dt.timedelta(hours=5, minutes=30))


def other_values():
    """(kind, tag, value) — tag is JSON-able, value is rebuilt from it in the worker"""
    V = []
    for i, v in enumerate([0, 1, -1, 42, -42, 2 ** 63, -(2 ** 63)]):
        V.append(("int", i))
    for i in range(6):
        V.append(("float", i))
    for i in range(5):
        V.append(("decimal", i))
    V += [("bool", 0), ("bool", 1), ("none", 0)]
    for i in range(7):
        V.append(("temporal", i))
    V += [("uuid", 0), ("enum", 0), ("enum", 1), ("enum", 2), ("enum", 3), ("enum", 4)]
    return V


def value_of(kind, tag):
    if kind == "str":
        return tag
    if kind == "int":
        return [0, 1, -1, 42, -42, 2 ** 63, -(2 ** 63)][tag]
    if kind == "float":
        return [0.5, -0.0, 1e-07, 1e21, -2.25, 3.0][tag]
    if kind == "decimal":
        return [decimal.Decimal("1.10"), decimal.Decimal("1E+2"), decimal.Decimal("-0.000"), decimal.Decimal("12345678901234567890.5"),
                decimal.Decimal("-3")][tag]
    if kind == "bool":
        return bool(tag)
    if kind == "none":
        return None
    if kind == "temporal":
        return [dt.date(2020, 2, 29), dt.time(1, 2, 3), dt.time(23, 59, 59, 123456), dt.datetime(2021, 12, 31, 23, 59, 59),
                dt.datetime(2021, 1, 1, 0, 0, 0, 5, tzinfo=TZ), dt.time(4, 5, 6, tzinfo=TZ),
                dt.datetime(1, 1, 1, 0, 0)][tag]
    if kind == "uuid":
        return uuid.UUID("12345678-1234-5678-1234-567812345678")
    if kind == "enum":
        return [SEnum.q, SEnum.b, IEnum.n, StrMixin.red, IntMixin.five][tag]
    if kind == "json":
        return json.loads(tag)
    raise ValueError(kind)


def benign_of(kind, v):
    if kind == "str":
        return "zz"
    if kind in ("int", "float", "decimal"):
        return 8
    if kind == "bool":
        return not v
    if kind == "none":
        return 8
    if kind == "temporal":
        return "zz"
    if kind == "uuid":
        return "zz"
    if kind == "enum":
        return "zz" if isinstance(v.value, str) else 8
    if kind == "json":
        return "zz"
    raise ValueError(kind)


def json_values(maxlen):
    strs = [""] + ALPHA if maxlen >= 1 else [""]
    if maxlen >= 2:
        strs = strs + ["'" + c for c in ALPHA] + ["\\" + c for c in ALPHA] + ['"' + c for c in ALPHA]
    out = []
    for s in strs:
        out.append({"k": s})
        out.append([s, 1])
        out.append({s: [None, True, {"n": s}]})
    out += [{}, [], [1, 2.5, None, False], {"a": {"b": {"c": [1, {"d": "e"}]}}}]
    return [json.dumps(o) for o in out]


# ---- positions: fn(Q, value) -> renderable --------------------------------------------------------------


def _t():
    return Table("t")


class _UnderParameterizer:
    """a statement observed through get_parameterized_sql(): values that opted out of parameterisation are still inlined there"""

    def __init__(self, q):
        self.q = q

    def get_sql(self, ctx=None):
        return self.q.get_parameterized_sql(ctx)[0] if ctx is not None else self.q.get_parameterized_sql()[0]

    def __str__(self):
        return self.get_sql()


def _noparam(v):
    return ValueWrapper(v.value if isinstance(v, ValueWrapper) else v, allow_parametrize=False)


POS = {
    "select": lambda Q, v: Q.from_(_t()).select(W(v)),
    # three levels of nesting whose inner levels were built through the generic class: the statement's dialect reaches the innermost literal
    "nested3_generic_inner": lambda Q, v: Q.from_(Query.from_(Query.from_(_t()).select("a").where(_t().a == v)).select("a")).select("a"),
    "nested3_in": lambda Q, v: Q.from_(_t()).select("a").where(_t().a.isin(Query.from_(Query.from_(_t()).select("a").where(_t().b == v)).select("a"))),
    # values that opted out of parameterisation, rendered while a parameterizer is active
    "noparam_where": lambda Q, v: _UnderParameterizer(Q.from_(_t()).select("a").where(_t().a == _noparam(v)).where(_t().b == 7)),
    "noparam_select": lambda Q, v: _UnderParameterizer(Q.from_(_t()).select(_noparam(v)).where(_t().b == 7)),
    "noparam_set": lambda Q, v: _UnderParameterizer(Q.update(_t()).set(_t().a, _noparam(v)).where(_t().b == 7)),
    "where_eq": lambda Q, v: Q.from_(_t()).select("a").where(_t().a == v),
    "where_ne_r": lambda Q, v: Q.from_(_t()).select("a").where(ValueWrapper(1) != v),
    "like": lambda Q, v: Q.from_(_t()).select("a").where(_t().a.like(v)),
    "between": lambda Q, v: Q.from_(_t()).select("a").where(_t().a.between(v, 0)),
    "in_list": lambda Q, v: Q.from_(_t()).select("a").where(_t().a.isin([v, 0])),
    # longer lists / rows (a renderer may treat lists above some length differently)
    "in_list4": lambda Q, v: Q.from_(_t()).select("a").where(_t().a.isin([0, 1, v, 2, 3])),
    "notin_list4": lambda Q, v: Q.from_(_t()).select("a").where(_t().a.notin([0, 1, 2, v])),
    "tuple4": lambda Q, v: Q.from_(_t()).select("a").where(Tuple(_t().a, _t().b, _t().c, _t().d) == Tuple(0, 1, 2, v)),
    "insert_row5": lambda Q, v: Q.into(_t()).insert(0, 1, 2, 3, v),
    "join_on_collate": lambda Q, v: Q.from_(_t()).join(Table("u")).on((_t().id == Table("u").id) & (Table("u").x == v), collate="utf8_bin").select(_t().a),
    "insert_row": lambda Q, v: Q.into(_t()).insert(0, v),
    "insert_rows": lambda Q, v: Q.into(_t()).columns("a", "b").insert((0, 0), (v, 0)),
    "set": lambda Q, v: Q.update(_t()).set(_t().a, v),
    "func_arg": lambda Q, v: Q.from_(_t()).select(FN.Coalesce(_t().a, v)),
    "case_then": lambda Q, v: Q.from_(_t()).select(Case().when(_t().a == 0, v).else_(0)),
    "case_when": lambda Q, v: Q.from_(_t()).select(Case().when(_t().a == v, 0).else_(0)),
    "case_else": lambda Q, v: Q.from_(_t()).select(Case().when(_t().a == 0, 0).else_(v)),
    "having": lambda Q, v: Q.from_(_t()).select(FN.Max(_t().b)).groupby(_t().a).having(FN.Max(_t().b) > v),
    "join_on": lambda Q, v: Q.from_(_t()).join(Table("u")).on((_t().id == Table("u").id) & (Table("u").x == v)).select(_t().a),
    "tuple_el": lambda Q, v: Q.from_(_t()).select("a").where(Tuple(_t().a, _t().b) == Tuple(v, 0)),
    "array_el": lambda Q, v: Q.from_(_t()).select(Array(v, 0)),
    "col_default": lambda Q, v: Q.create_table(_t()).columns(Column("a", "T", default=v)),
    "do_update": lambda Q, v: Q.into(_t()).insert(0).on_conflict("id").do_update("a", v),
    "json_key": lambda Q, v: Q.from_(_t()).select("a").where(_t().j.get_json_value(v) == 0),
    "json_has_key": lambda Q, v: Q.from_(_t()).select("a").where(_t().j.has_key(v)),
    "arith": lambda Q, v: Q.from_(_t()).select(_t().a + v),
    # a negative value right of a minus must not open a comment ("--")
    "arith_sub": lambda Q, v: Q.from_(_t()).select(_t().a - v),
    "arith_sub_prod": lambda Q, v: Q.from_(_t()).select((_t().a - v) * _t().b),
    "arith_sub_negprod": lambda Q, v: Q.from_(_t()).select(_t().a - W(v) * _t().b),
    "arith_sub_negquot": lambda Q, v: Q.from_(_t()).select(_t().a - (W(v) / _t().b) * 2),
    "arith_sub_where": lambda Q, v: Q.update(_t()).set(_t().a, _t().a - v).where(_t().b > 0),
    "subquery_where": lambda Q, v: Q.from_(_t()).select("a").where(_t().a.isin(Q.from_(Table("u")).select("x").where(Table("u").y == v))),
    "union_operand": lambda Q, v: Q.from_(_t()).select("a").union(Q.from_(Table("u")).select("x").where(Table("u").y == v)),
    "returning": None,  # filled for postgresql below
}
# every public Term method that takes a constant (the pattern methods take strings; the named comparison methods any value)
for _m in ("not_like", "ilike", "not_ilike", "rlike", "regex", "bin_regex", "glob"):
    POS["m_" + _m] = (lambda m: (lambda Q, v: Q.from_(_t()).select("a").where(getattr(_t().a, m)(v))))(_m)
for _m in ("eq", "ne", "gt", "gte", "lt", "lte"):
    POS["m_" + _m] = (lambda m: (lambda Q, v: Q.from_(_t()).select("a").where(getattr(_t().a, m)(v))))(_m)
# the value inside a statement that was built through another dialect's class and is embedded here: the embedding statement's
# dialect decides the literal
def _other(Q):
    return fp.QCLS["generic"] if Q is fp.QCLS["mysql"] else fp.QCLS["mysql"]


POS["create_as_select"] = lambda Q, v: Q.create_table("n").as_select(Q.from_(_t()).select("a").where(_t().a == v))
POS["create_as_select_other_cls"] = lambda Q, v: Q.create_table("n").as_select(_other(Q).from_(_t()).select("a").where(_t().a == v))
POS["subquery_where_other_cls"] = lambda Q, v: Q.from_(_t()).select("a").where(_t().a.isin(_other(Q).from_(Table("u")).select("x").where(Table("u").y == v)))
POS["from_sub_other_cls"] = lambda Q, v: (lambda sq: Q.from_(sq).select(sq.x))(_other(Q).from_(Table("u")).select("x").where(Table("u").y == v).as_("sq"))
POS["union_operand_other_cls"] = lambda Q, v: Q.from_(_t()).select("a").union(_other(Q).from_(Table("u")).select("x").where(Table("u").y == v))
# the remaining JSON operators of Term
POS["json_text_key"] = lambda Q, v: Q.from_(_t()).select("a").where(_t().j.get_text_value(v) == "x")
POS["json_has_keys"] = lambda Q, v: Q.from_(_t()).select("a").where(_t().j.has_keys([v]))
POS["json_has_any_keys"] = lambda Q, v: Q.from_(_t()).select("a").where(_t().j.has_any_keys([v]))
# statements started by the table's own methods (the table was handed out by the dialect's query class)
POS["table_api_insert"] = lambda Q, v: Q.Table("t").insert(0, v)
POS["table_api_update"] = lambda Q, v: Q.Table("t").update().set("a", v)
POS["table_api_select"] = lambda Q, v: Q.Table("t").select(W(v))
POS["m_from_to"] = lambda Q, v: Q.from_(_t()).select("a").where(_t().a.from_to(v, 0))
POS["between_upper"] = lambda Q, v: Q.from_(_t()).select("a").where(_t().a.between(0, v))
# containers of other Python types
POS["in_tuple"] = lambda Q, v: Q.from_(_t()).select("a").where(_t().a.isin((0, v)))
POS["in_set"] = lambda Q, v: Q.from_(_t()).select("a").where(_t().a.isin({v}))
POS["in_set_mixed"] = lambda Q, v: Q.from_(_t()).select("a").where(_t().a.isin({v, None, 7}) if v not in (None, 7) else _t().a.isin({v}))
POS["notin_set_mixed"] = lambda Q, v: Q.from_(_t()).select("a").where(_t().a.notin({v, None, 7}) if v not in (None, 7) else _t().a.notin({v}))
POS.pop("returning")
# positions that accept only some kinds
ONLY = {"like": {"str"}, "m_not_like": {"str"}, "m_ilike": {"str"}, "m_not_ilike": {"str"}, "m_rlike": {"str"}, "m_regex": {"str"},
        "m_bin_regex": {"str"}, "m_glob": {"str"}, "json_key": {"str", "int"}, "json_has_key": {"str"}, "json_text_key": {"str", "int"}, "json_has_keys": {"str"}, "json_has_any_keys": {"str"}, "arith": {"int", "float", "decimal", "str"},
        "arith_sub": {"int", "float", "decimal", "enum", "bool"}, "arith_sub_prod": {"int", "float", "decimal", "enum"},
        "arith_sub_where": {"int", "float", "decimal", "enum"}, "arith_sub_negprod": {"int", "float", "decimal"},
        "arith_sub_negquot": {"int", "float", "decimal"}}
JSON_POS = {"json_term": lambda Q, v: Q.from_(_t()).select(JSON(v)),
            "json_contains": lambda Q, v: Q.from_(_t()).select("a").where(_t().j.contains(v)),
            "select": POS["select"], "where_eq": POS["where_eq"], "insert_row": POS["insert_row"], "set": POS["set"],
            "in_list": POS["in_list"], "func_arg": POS["func_arg"], "col_default": POS["col_default"],
            "do_update": POS["do_update"]}
# plain str in JSON term / contains
POS_STR_EXTRA = {"json_term": JSON_POS["json_term"], "json_path": lambda Q, v: Q.from_(_t()).select("a").where(_t().j.get_path_json_value(v) == 0),
                 "json_path_text": lambda Q, v: Q.from_(_t()).select("a").where(_t().j.get_path_text_value(v) == "x")}
JSON_POS["json_contained_by"] = lambda Q, v: Q.from_(_t()).select("a").where(_t().j.contained_by(v))


def positions_for(kind):
    if kind == "json":
        return JSON_POS
    P = {k: f for k, f in POS.items() if k not in ONLY or kind in ONLY[k]}
    if kind == "str":
        P = dict(P, **POS_STR_EXTRA)
    return P


# ---- enumeration ---------------------------------------------------------------------------------------------


def strings(maxlen):
    out = [""]
    for n in range(1, maxlen + 1):
        out += ["".join(p) for p in itertools.product(ALPHA, repeat=n)]
    return out


def chunks(tier, seed):
    out = []
    for d in fp.CTX:
        for pos in positions_for("str"):
            if tier == "quick":
                out.append({"d": d, "pos": pos, "kind": "str", "maxlen": 2, "first": None})
            else:
                for c in [None] + list(range(len(ALPHA))):
                    out.append({"d": d, "pos": pos, "kind": "str", "maxlen": 3, "first": c})
        out.append({"d": d, "pos": None, "kind": "other"})
        out.append({"d": d, "pos": None, "kind": "json", "maxlen": 1 if tier == "quick" else 2})
    return out


def expand(chunk):
    d = chunk["d"]
    if chunk["kind"] == "str":
        if chunk["maxlen"] == 2:
            ss = strings(2)
        elif chunk["first"] is None:
            ss = strings(2)
        else:
            f = ALPHA[chunk["first"]]
            ss = [f + "".join(p) for p in itertools.product(ALPHA, repeat=2)]
        for s in ss:
            yield {"d": d, "pos": chunk["pos"], "kind": "str", "tag": s}
    elif chunk["kind"] == "other":
        # containers without members (an empty list / tuple / dict is a value like any other: it is falsy, but it is there)
        for pos in ("select", "where_eq", "set", "insert_row", "func_arg", "case_then", "case_else", "do_update", "col_default", "in_list"):
            for what in ("list", "dict", "tuple_in_list"):
                yield {"d": d, "pos": pos, "kind": "empty", "tag": what}
        for kind, tag in other_values():
            for pos in positions_for(kind):
                yield {"d": d, "pos": pos, "kind": kind, "tag": tag}
    else:
        for js in json_values(chunk["maxlen"]):
            for pos in JSON_POS:
                yield {"d": d, "pos": pos, "kind": "json", "tag": js}


# ---- oracle ------------------------------------------------------------------------------------------------------

_conn = sqlite3.connect(":memory:")


def charclass(s):
    cl = []
    if "'" in s:
        cl.append("quote")
    if "\\" in s:
        cl.append("backslash")
    if "\0" in s:
        cl.append("nul")
    if '"' in s:
        cl.append("dquote")
    return "+".join(cl) or "plain"


def expected_groups(kind, v, d, pos):
    """acceptable decoded token groups for value v: list of alternatives, each a list of (kind, value) pairs"""
    if kind == "str":
        return [[("STR", v)]]
    if kind in ("int", "float", "decimal"):
        neg = (v < 0) or (kind in ("float", "decimal") and str(v).startswith("-"))
        mag = -v if neg else v
        g = [("NUM", mag)]
        alts = [([("OP", "-")] if neg else []) + g]
        if neg and pos.startswith("arith_sub"):
            alts.append([("OP", "("), ("OP", "-")] + g + [("OP", ")")])  # x-(-1): the sign needs grouping there
        return alts
    if kind == "bool":
        return [[("WORD", "TRUE" if v else "FALSE")], [("NUM", 1 if v else 0)]]
    if kind == "none":
        return [[("WORD", "NULL")]]
    if kind == "temporal":
        alts = [[("STR", v.isoformat())]]
        if d == "mysql" and isinstance(v, dt.time) and v.tzinfo is not None:
            alts.append([("STR", v.replace(tzinfo=None).isoformat())])  # MySQL has no time zones in TIME literals
        return alts
    if kind == "uuid":
        return [[("STR", str(v))]]
    if kind == "enum":
        return expected_groups("str" if isinstance(v.value, str) else "int", v.value, d, pos)
    if kind == "json":
        return [[("JSON", v)]]
    raise ValueError(kind)


def num_eq(tokval, text, want):
    try:
        if isinstance(want, decimal.Decimal):
            return decimal.Decimal(text) == want
        if isinstance(want, float):
            return float(text) == want
        return int(text) == want if text.isdigit() else float(text) == want
    except Exception:
        return False


def group_matches(toks, alts):
    for alt in alts:
        if len(alt) != len(toks):
            continue
        ok = True
        for t, (k, val) in zip(toks, alt):
            if k == "JSON":
                if t.kind != "STR":
                    ok = False
                    break
                try:
                    ok = json.loads(t.value) == val
                except Exception:
                    ok = False
            elif k == "NUM":
                ok = t.kind == "NUM" and num_eq(t.value, t.text, val)
            elif k == "WORD":
                ok = t.kind == "WORD" and t.value == val
            elif k == "OP":
                ok = t.kind == "OP" and t.text == val
            else:
                ok = t.kind == k and t.value == val
            if not ok:
                break
        if ok:
            return True
    return False


_BENIGN = {}


def render(o, Q):
    try:
        return o.get_sql()
    except TypeError:
        return o.get_sql(Q.SQL_CONTEXT)


def W(v):
    """a python str / list can only become a *value* in these positions through an explicit wrapper
    (a bare str is a column name in select(); a bare list is an Array / a row)"""
    return ValueWrapper(v) if isinstance(v, (str, list)) else v


def run_empty(case, res):
    """the statement with an empty container at the position has the statement with a marker constant at that position as its
    skeleton: the same tokens around one value group (the clause that holds the value does not disappear)"""
    d, pos, what = case["d"], case["pos"], case["tag"]
    Q = fp.QCLS[d]
    lexd = "sqlite" if d == "generic" else d
    v = {"list": [], "dict": {}, "tuple_in_list": [()]}[what]
    if what == "tuple_in_list" and pos != "in_list":
        return
    fn = POS[pos]
    res.nontrivial = 1
    res.states.append(h64(repr((d, pos, "empty", what))))
    try:
        a = render(fn(Q, v), Q)  # (handed over as a plain Python value: the library wraps it)
        b = render(fn(Q, 7777), Q)
        ta, tb = lex(a, lexd), lex(b, lexd)
    except Exception as e:
        res.violate("C05|%s|%s|empty|raises" % (pos, d), "building / rendering with an empty container raised %s" % type(e).__name__,
                    dialect=d, pos=pos, value=repr(v), error=str(e)[:200])
        return
    res.transitions += 2
    res.outcomes.append(h64(a))
    kb = [(t.kind, t.value) for t in tb]
    i = next((i for i, x in enumerate(kb) if x == ("NUM", 7777)), None)
    if i is None:
        res.violate("C05|%s|%s|int|-" % (pos, d), "value is not emitted as exactly one literal that decodes to the original (the marker constant "
                    "7777 does not appear)", dialect=d, pos=pos, sql=b)
        return
    pre, post = kb[:i], kb[i + 1:]
    ka = [(t.kind, t.value) for t in ta]
    ok = ka[:len(pre)] == pre and (not post or ka[len(ka) - len(post):] == post) and len(ka) > len(pre) + len(post)
    if not ok:
        res.violate("C05|%s|%s|empty|%s" % (pos, d, what), "with an empty container as the value the statement is not the statement around one value "
                    "(the value or its clause disappeared)", dialect=d, pos=pos, value=repr(v), sql=a, with_marker=b)


def run_case(case):
    res = Result()
    if case["kind"] == "empty":
        run_empty(case, res)
        return res
    d, pos, kind = case["d"], case["pos"], case["kind"]
    v = value_of(kind, case["tag"])
    Q = fp.QCLS[d]
    fn0 = positions_for(kind)[pos]
    if pos in ("json_term", "json_contains", "col_default"):
        fn = fn0  # (a list given as a column default is a value, not an array)
    else:
        fn = lambda Q, x: fn0(Q, W(x) if isinstance(x, list) else x)  # a bare list would be an Array / a row
    if pos in ("do_update", "col_default") and v is None:
        return res  # do_update(field, None) means EXCLUDED.field, default=None means no default: not value positions
    if pos in ("json_path", "json_path_text") and d == "mysql":
        return res  # '#>' is a PostgreSQL operator; '#' opens a comment in MySQL
    lexd = "sqlite" if d == "generic" else d
    res.nontrivial = 1
    res.transitions += 1
    try:
        sql = render(fn(Q, v), Q)
    except Exception as e:
        res.violate("C05|%s|%s|%s|raises" % (pos, d, kind), "building/rendering with this value raised %s" % type(e).__name__,
                    dialect=d, pos=pos, kind=kind, value=repr(v), error=str(e)[:200])
        return res
    # the same statement object rendered for another dialect first: the literal must not depend on that history
    other = "generic" if d == "mysql" else "mysql"
    try:
        o2 = fn(Q, v)
        try:
            o2.get_sql(fp.CTX[other])
        except Exception:
            pass
        sql2 = render(o2, Q)
    except Exception as e:
        sql2 = "!" + type(e).__name__
    res.transitions += 2
    if sql2 != sql:
        res.violate("C05|%s|%s|%s|after-other-dialect" % (pos, d, kind),
                    "the statement renders differently after the same object was rendered for another dialect (%s)" % other,
                    dialect=d, pos=pos, kind=kind, value=repr(v), fresh=sql, after=sql2)
        return res
    # statements created through the dialect's query class: str() must give the dialect's literal as well
    try:
        alt = str(fn(Q, v))
    except Exception as e:
        alt = "!" + type(e).__name__
    res.transitions += 1
    if alt != sql:
        res.violate("C05|%s|%s|%s|str-differs" % (pos, d, kind), "str() of the statement differs from its rendering with the dialect's context",
                    dialect=d, pos=pos, kind=kind, value=repr(v), with_context=sql, str=alt)
        return res
    b = benign_of(kind, v)
    bkey = (d, pos, repr(b))
    if bkey not in _BENIGN:
        try:
            _BENIGN[bkey] = [(t.kind, t.value) for t in lex(render(fn(Q, b), Q), lexd)]
        except LexError as e:
            res.violate("C05|%s|%s|%s|statement-unlexable" % (pos, d, kind), "the statement does not lex in the target dialect even with a plain value",
                        dialect=d, pos=pos, kind=kind, value=repr(b), sql=render(fn(Q, b), Q), error=str(e))
            return res
    bt = _BENIGN[bkey]
    res.outcomes.append(h64(sql))
    res.states.append(h64(repr((d, pos, kind))))
    cc = charclass(v) if kind == "str" else (charclass(case["tag"]) if kind == "json" else "-")
    sig = "C05|%s|%s|%s|%s" % (pos, d, kind, cc)
    try:
        toks = lex(sql, lexd)
    except LexError as e:
        res.violate(sig, "the rendered SQL does not lex in the target dialect (literal ended early / swallowed text)",
                    dialect=d, pos=pos, kind=kind, value=repr(v), sql=sql, error=str(e))
        return res
    tk = [(t.kind, t.value) for t in toks]
    if any(t.kind == "COM" for t in toks):
        res.violate(sig, "value content is read as a comment", dialect=d, pos=pos, kind=kind, value=repr(v), sql=sql)
        return res
    if pos in ("in_set_mixed", "notin_set_mixed"):
        # a set has no order: the IN list is read as a set of groups - one per member, each the literal of its member
        k0 = next((x for x, t in enumerate(toks) if t.kind == "WORD" and t.value == "IN"), None)
        groups, cur, depth = [], [], 0
        for t in toks[k0 + 2:] if k0 is not None else []:
            if t.kind == "OP" and t.text in ("(", "["):
                depth += 1
            elif t.kind == "OP" and t.text in (")", "]"):
                if depth == 0:
                    break
                depth -= 1
            if t.kind == "OP" and t.text == "," and depth == 0:
                groups.append(cur)
                cur = []
            else:
                cur.append(t)
        groups.append(cur)
        members = {v, None, 7} if v not in (None, 7) else {v}
        alts = expected_groups(kind, v, d, pos)
        rest = [g for g in groups if not group_matches(g, alts)]
        want_rest = [[("WORD", "NULL")], [("NUM", 7)]] if len(members) == 3 else []
        got_rest = sorted([[(t.kind, t.value) for t in g] for g in rest], key=repr)
        if len(groups) != len(members) or got_rest != sorted(want_rest, key=repr):
            res.violate(sig, "the members of a set given to isin()/notin() are not emitted as one literal each that decodes to the member",
                        dialect=d, pos=pos, kind=kind, value=repr(v), sql=sql, groups=[[t.text for t in g] for g in groups][:6])
        return res
    # common prefix / suffix with the benign stream
    i = 0
    while i < len(tk) and i < len(bt) and tk[i] == bt[i]:
        i += 1
    j = 0
    while j < len(tk) - i and j < len(bt) - i and tk[len(tk) - 1 - j] == bt[len(bt) - 1 - j]:
        j += 1
    mid = toks[i:len(toks) - j]
    alts = expected_groups(kind, v, d, pos)
    if pos == "json_term" and kind == "str":
        alts = [[("JSON", v)]]  # JSON('x') denotes the JSON string "x"
    # the benign value's own group length tells how many tokens of the benign stream differ: must be 1
    bmid = bt[i:len(bt) - j]
    if pos in ("arith_sub_negprod", "arith_sub_negquot") and len(mid) > 2 and mid[0].text == "(" and mid[-1].text == ")":
        # x-(-1*y): the negative factor needs grouping together with its product; compare inside the parentheses
        mid, bmid = list(mid[1:-1]), list(bmid)
        while mid and bmid and (mid[-1].kind, mid[-1].value) == bmid[-1]:
            mid.pop()
            bmid.pop()
    ok = len(bmid) <= 1 and group_matches(mid, alts)
    span = mid
    if not ok and len(bmid) == 0:
        # value equal to a neighbouring token sequence (e.g. v == 0 next to ",0"): widen by the group length
        for alt in alts:
            n = len(alt)
            for s0 in range(max(0, i - n), i + 1):
                if group_matches(toks[s0:s0 + n], [alt]) and len(toks) - n + 1 == len(bt):
                    ok = True
                    span = toks[s0:s0 + n]
    if not ok:
        res.violate(sig, "value is not emitted as exactly one literal that decodes to the original",
                    dialect=d, pos=pos, kind=kind, value=repr(v), sql=sql, differing_tokens=[t.text for t in mid][:8],
                    expected=repr(alts)[:200])
        return res
    # SQLite: the engine evaluates the emitted literal
    if d == "sqlite" and span:
        text = sql[span[0].start:span[-1].end]
        res.transitions += 1
        try:
            got = _conn.execute("SELECT " + text).fetchone()[0]
            if kind == "json" or pos == "json_term":
                eq = json.loads(got) == v
            elif kind == "bool":
                eq = got == (1 if v else 0)
            elif kind in ("temporal",):
                eq = got == v.isoformat()
            elif kind == "uuid":
                eq = got == str(v)
            elif kind == "enum":
                eq = got == v.value
            elif kind == "decimal":
                eq = decimal.Decimal(str(got)) == v or float(got) == float(v)
            elif kind == "int" and abs(v) >= 2 ** 63:
                eq = float(got) == float(v)
            else:
                eq = got == v
            err = None
        except (sqlite3.Error, ValueError, OverflowError) as e:
            eq, got, err = False, None, str(e)
        if not eq:
            if kind == "str" and "\0" in v:
                sig = "C05|*|sqlite|str|nul"  # one root cause whatever the position
            res.violate(sig + "|engine", "SQLite does not evaluate the emitted literal to the original value",
                        dialect=d, pos=pos, kind=kind, value=repr(v), literal=text, got=repr(got), error=err)
    return res


def describe():
    return {
        "rule": "values: all strings of length <= L over a 24-character adversarial alphabet; ints/floats/Decimals/"
                "bool/None/temporal/UUID/enums; JSON values with adversarial string leaves; x ~27 value positions x "
                "6 dialect builders; non-trivial = every case; distinct = distinct (dialect, position, value)",
        "bound": {"quick": "strings of length <= 2 (601 strings), JSON leaves of length <= 1",
                  "thorough": "strings of length <= 3 (14425 strings), JSON leaves of length <= 2"},
        "assumptions": [
            "escaping is a per-character substitution and every lexical hazard is a pair of characters, so length 3 "
            "gives every pair with both neighbours",
            "per-dialect lexical grammars as implemented in mc/lexer.py (MySQL: backslash escapes, no ANSI_QUOTES)",
            "booleans may appear as TRUE/FALSE or 1/0; aware TIME values may lose the zone under MySQL",
        ],
    }
