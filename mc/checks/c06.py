"""C06 — operator grouping of the expression tree survives rendering.

Closure exploration over the operator alphabet: every parent/child/operand-position triple (quick), plus the
full level-2 closure of the arithmetic/comparison/boolean core and depth-3 spines (thorough).  Every tree is
built through the public API, rendered under the six dialect contexts, lexed (a comment token = operator
fusion), parsed by the reference precedence parser, and compared with the built tree after the allowed
re-associations.  SQLite second opinion: the rendered text and the fully parenthesised transcription are
evaluated over all assignments of {NULL,-2,-1,0,1,2,3} to a, b.
"""
from __future__ import annotations

import decimal
import json

import itertools
import sqlite3

from mc.common import Result, h64
from mc import fp
from mc.exprparse import ParseError, norm, parse_expr
from mc.lexer import LexError

from pypika_tortoise import Case, Field, Not
from pypika_tortoise import functions as FN
from pypika_tortoise.terms import Function, Mod, NullValue, Pow, Term, ValueWrapper

from pypika_tortoise.enums import Dialects as _Dialects

_DIALECT_MEMBERS = list(_Dialects)

PROPERTY = "C06"

ARITH = ["+", "-", "*", "/"]
CMPS = ["=", "<>", "<", "<=", ">", ">="]
LOGIC = ["AND", "OR", "XOR"]

LEAVES = [["col", "a"], ["col", "b"], ["lit", 1], ["lit", -1], ["lit", 1.5], ["lit", "x"], ["null"], ["agg", "SUM", ["col", "a"]],
          ["lit", -2.5], ["lit", -0.0], ["declit", "-2.5"], ["lit", 0], ["lit", ""]]


_SHARE = {"memo": None}


def T(e):
    """algebra -> library term via the public API (with _SHARE["memo"] set: structurally equal sub-trees become one shared object)"""
    memo = _SHARE["memo"]
    if memo is None or not isinstance(e, list):
        return _T_build(e)
    k = json.dumps(e)
    if k not in memo:
        memo[k] = _T_build(e)
    return memo[k]


def _T_build(e):
    k = e[0]
    if k == "col":
        return Field(e[1])
    if k == "lit":
        return ValueWrapper(e[1])
    if k == "declit":
        return ValueWrapper(decimal.Decimal(e[1]))
    if k == "null":
        return NullValue()
    if k == "sub":
        from pypika_tortoise import Query, Table
        return Query.from_(Table("cd")).select(Field("c")).where(Field("d") == 1)
    if k == "agg":
        return FN.Sum(T(e[2]))
    if k == "neg":
        return -T(e[1])
    if k == "not":
        return ~T(e[1])
    if k == "negate":
        return T(e[1]).negate()
    if k == "arith":
        l, r = T(e[2]), _operand(e[3])
        return {"+": lambda: l + r, "-": lambda: l - r, "*": lambda: l * r, "/": lambda: l / r}[e[1]]()
    if k == "rarith":  # reflected: python constant on the left
        r = T(e[3])
        c = e[2][1]
        return {"+": lambda: c + r, "-": lambda: c - r, "*": lambda: c * r, "/": lambda: c / r}[e[1]]()
    if k == "cmp":
        l, r = T(e[2]), _operand(e[3])
        return {"=": lambda: l == r, "<>": lambda: l != r, "<": lambda: l < r, "<=": lambda: l <= r,
                ">": lambda: l > r, ">=": lambda: l >= r}[e[1]]()
    if k == "like":
        return T(e[1]).like(e[2])
    if k == "in":
        t = T(e[1])
        items = [_operand(x) for x in e[2]]
        return t.notin(items) if e[3] else t.isin(items)
    if k == "between":
        return T(e[1]).between(_operand(e[2]), _operand(e[3]))
    if k == "isnull":
        return T(e[1]).isnull()
    if k == "notnull":
        return T(e[1]).notnull()
    if k == "logic":
        l, r = T(e[2]), T(e[3])
        return {"AND": lambda: l & r, "OR": lambda: l | r, "XOR": lambda: l ^ r}[e[1]]()
    if k == "case":
        c = Case()
        for w, t in e[1]:
            c = c.when(T(w), _operand(t))
        if e[2] is not None:
            c = c.else_(_operand(e[2]))
        return c
    if k == "func":
        return Function(e[1], *[_operand(a) for a in e[2]])
    if k == "pow":
        return T(e[1]) ** _operand(e[2])
    if k == "mod":
        return T(e[1]) % _operand(e[2])
    if k == "bitand":
        return T(e[1]).bitwiseand(e[2])
    raise ValueError(e)


def _operand(e):
    """right-hand operands: python constants are passed raw (the library wraps them), terms are built."""
    if e[0] == "lit":
        return e[1]
    if e[0] == "declit":
        return decimal.Decimal(e[1])
    if e[0] == "null":
        return None
    return T(e)


def B(e):
    """algebra -> expected tree in the parser's representation (reference model of what was built)"""
    k = e[0]
    if k == "col":
        return ("id", (e[1],))
    if k == "lit":
        v = e[1]
        return ("str", v) if isinstance(v, str) else ("num", v)
    if k == "declit":
        return ("num", float(e[1]))
    if k == "null":
        return ("null",)
    if k == "sub":
        return ("subq",)
    if k == "agg":
        return ("func", e[1], [B(e[2])])
    if k == "neg":
        return ("neg", B(e[1]))
    if k in ("not", "negate"):
        if k == "negate" and e[1][0] == "in":
            x = e[1]
            return ("in", B(x[1]), [B(i) for i in x[2]], not x[3])
        return ("not", B(e[1]))
    if k in ("arith", "rarith"):
        return ("arith", e[1], B(e[2]), B(e[3]))
    if k == "cmp":
        return ("cmp", e[1], B(e[2]), B(e[3]))
    if k == "like":
        return ("like", "LIKE", B(e[1]), ("str", e[2]))
    if k == "in":
        return ("in", B(e[1]), [B(i) for i in e[2]], bool(e[3]))
    if k == "between":
        return ("between", B(e[1]), B(e[2]), B(e[3]), False)
    if k == "isnull":
        return ("isnull", B(e[1]), False)
    if k == "notnull":
        return ("not", ("isnull", B(e[1]), False))
    if k == "logic":
        return ("logic", e[1], B(e[2]), B(e[3]))
    if k == "case":
        return ("case", [(B(w), B(t)) for w, t in e[1]], B(e[2]) if e[2] is not None else None)
    if k == "func":
        return ("func", e[1], [B(a) for a in e[2]])
    if k == "pow":
        return ("func", "POW", [B(e[1]), B(e[2])])
    if k == "mod":
        return ("func", "MOD", [B(e[1]), B(e[2])])
    if k == "bitand":
        return ("bitand", B(e[1]), ("num", e[2]))
    raise ValueError(e)


def R(e):
    """algebra -> fully parenthesised SQLite SQL (reference transcription)"""
    k = e[0]
    if k == "col":
        return '"%s"' % e[1]
    if k == "lit":
        v = e[1]
        return "'%s'" % v.replace("'", "''") if isinstance(v, str) else "(%r)" % v
    if k == "declit":
        return "(%s)" % e[1]
    if k == "null":
        return "NULL"
    if k == "agg":
        return "%s(%s)" % (e[1], R(e[2]))
    if k == "neg":
        return "(-(%s))" % R(e[1])
    if k in ("not", "negate"):
        return "(NOT (%s))" % R(e[1])
    if k in ("arith", "rarith"):
        return "((%s)%s(%s))" % (R(e[2]), e[1], R(e[3]))
    if k == "cmp":
        return "((%s)%s(%s))" % (R(e[2]), e[1], R(e[3]))
    if k == "like":
        return "((%s) LIKE '%s')" % (R(e[1]), e[2])
    if k == "in":
        return "((%s) %sIN (%s))" % (R(e[1]), "NOT " if e[3] else "", ",".join("(%s)" % R(i) for i in e[2]))
    if k == "between":
        return "((%s) BETWEEN (%s) AND (%s))" % (R(e[1]), R(e[2]), R(e[3]))
    if k == "isnull":
        return "((%s) IS NULL)" % R(e[1])
    if k == "notnull":
        return "(NOT ((%s) IS NULL))" % R(e[1])
    if k == "logic":
        return "((%s) %s (%s))" % (R(e[2]), e[1], R(e[3]))
    if k == "case":
        return "(CASE %s%s END)" % (" ".join("WHEN (%s) THEN (%s)" % (R(w), R(t)) for w, t in e[1]),
                                    " ELSE (%s)" % R(e[2]) if e[2] is not None else "")
    if k == "func":
        return "%s(%s)" % (e[1], ",".join(R(a) for a in e[2]))
    if k == "pow":
        return "POW(%s,%s)" % (R(e[1]), R(e[2]))
    if k == "mod":
        return "MOD(%s,%s)" % (R(e[1]), R(e[2]))
    if k == "bitand":
        return "((%s) & %d)" % (R(e[1]), e[2])
    raise ValueError(e)


# ---- enumeration ------------------------------------------------------------------------------------------

A_, B_, ONE, NEG1 = ["col", "a"], ["col", "b"], ["lit", 1], ["lit", -1]


def op_templates():
    """(name, n_slots, make(children)->E, default fillers)"""
    Tm = []
    for op in ARITH:
        Tm.append(("arith" + op, 2, (lambda op: lambda c: ["arith", op, c[0], c[1]])(op), [A_, B_]))
    Tm.append(("rarith-", 1, lambda c: ["rarith", "-", ["lit", 1], c[0]], [A_]))
    Tm.append(("rarith/", 1, lambda c: ["rarith", "/", ["lit", 2], c[0]], [A_]))
    Tm.append(("neg", 1, lambda c: ["neg", c[0]], [A_]))
    Tm.append(("not", 1, lambda c: ["not", c[0]], [["cmp", "=", A_, ONE]]))
    Tm.append(("negate", 1, lambda c: ["negate", c[0]], [["cmp", "=", A_, ONE]]))
    for op in CMPS:
        Tm.append(("cmp" + op, 2, (lambda op: lambda c: ["cmp", op, c[0], c[1]])(op), [A_, B_]))
    Tm.append(("like", 1, lambda c: ["like", c[0], "x%"], [A_]))
    Tm.append(("in", 2, lambda c: ["in", c[0], [c[1], ONE], False], [A_, B_]))
    Tm.append(("notin", 2, lambda c: ["in", c[0], [c[1], ONE], True], [A_, B_]))
    Tm.append(("between", 3, lambda c: ["between", c[0], c[1], c[2]], [A_, ONE, B_]))
    Tm.append(("isnull", 1, lambda c: ["isnull", c[0]], [A_]))
    Tm.append(("notnull", 1, lambda c: ["notnull", c[0]], [A_]))
    for op in LOGIC:
        Tm.append(("logic" + op, 2, (lambda op: lambda c: ["logic", op, c[0], c[1]])(op),
                   [["cmp", "=", A_, ONE], ["cmp", "<", B_, ONE]]))
    Tm.append(("case", 3, lambda c: ["case", [[c[0], c[1]]], c[2]], [["cmp", "=", A_, ONE], B_, ONE]))
    Tm.append(("func", 2, lambda c: ["func", "FN", [c[0], c[1]]], [A_, B_]))
    Tm.append(("pow", 2, lambda c: ["pow", c[0], c[1]], [A_, ["lit", 2]]))
    Tm.append(("mod", 2, lambda c: ["mod", c[0], c[1]], [A_, B_]))
    Tm.append(("bitand", 1, lambda c: ["bitand", c[0], 3], [A_]))
    return Tm


TEMPL = op_templates()


def level1():
    """every operator applied to default fillers and to each single leaf variant"""
    out = []
    for name, n, mk, fill in TEMPL:
        out.append(mk(list(fill)))
        for pos in range(n):
            for leaf in LEAVES:
                c = list(fill)
                c[pos] = leaf
                out.append(mk(c))
    return out


def extras():
    """a few deeper shapes where a bracket decision depends on a grandchild"""
    c1, c2, c3 = ["cmp", ">", A_, ONE], ["cmp", "<", B_, ONE], ["cmp", "=", A_, B_]
    return [
        ["logic", "AND", c1, ["logic", "OR", c2, ["not", c3]]],
        ["logic", "OR", c1, ["logic", "AND", c2, ["not", c3]]],
        ["logic", "AND", ["logic", "OR", ["not", c1], c2], c3],
        ["not", ["logic", "AND", c1, ["logic", "OR", c2, c3]]],
        ["logic", "AND", c1, ["logic", "OR", c2, ["logic", "AND", c3, ["not", c1]]]],
        ["arith", "-", A_, ["arith", "-", B_, ["arith", "-", A_, ONE]]],
        ["arith", "/", A_, ["arith", "/", B_, ["arith", "*", A_, B_]]],
        ["arith", "*", ["arith", "+", A_, ONE], ["arith", "-", B_, ["arith", "+", A_, ONE]]],
        ["arith", "-", ["neg", ["arith", "+", A_, B_]], ["neg", ["arith", "-", A_, B_]]],
        ["case", [[["logic", "OR", c1, ["logic", "AND", c2, c3]], ["arith", "-", A_, ["arith", "-", B_, ONE]]]], ["neg", ["arith", "+", A_, ONE]]],
    ]


def triples():
    kids = level1() + LEAVES
    seen = set()
    for e in extras():
        seen.add(repr(e))
        yield e
    for name, n, mk, fill in TEMPL:
        for pos in range(n):
            for kid in kids:
                c = list(fill)
                c[pos] = kid
                e = mk(c)
                key = repr(e)
                if key not in seen:
                    seen.add(key)
                    yield e


CORE_LEAVES = [A_, B_, ONE, NEG1]


def core_ops():
    ops = []
    for op in ARITH:
        ops.append((2, (lambda op: lambda c: ["arith", op, c[0], c[1]])(op)))
    for op in ["=", "<"]:
        ops.append((2, (lambda op: lambda c: ["cmp", op, c[0], c[1]])(op)))
    for op in ["AND", "OR"]:
        ops.append((2, (lambda op: lambda c: ["logic", op, c[0], c[1]])(op)))
    ops.append((1, lambda c: ["neg", c[0]]))
    ops.append((1, lambda c: ["not", c[0]]))
    return ops


def core_level(k):
    lv = [list(CORE_LEAVES)]
    for _ in range(k):
        prev = [x for l in lv for x in l]
        new = []
        last = lv[-1]
        for n, mk in core_ops():
            if n == 1:
                new += [mk([x]) for x in last]
            else:
                for l in prev:
                    for r in prev:
                        if l in last or r in last:
                            new.append(mk([l, r]))
        lv.append(new)
    return lv


def logic_closure():
    """every AND/OR/XOR/NOT tree of depth <= 3 whose binary nodes have a depth-limited tree on one side and a leaf
    comparison on the other (a bracket decision depends on grandparent, NOT and grandchild connectives)"""
    c = [["cmp", ">", A_, ONE], ["cmp", "<", B_, ONE], ["cmp", "=", A_, B_]]
    ops = ["AND", "OR", "XOR"]
    lv = [list(c)]
    for depth in range(3):
        prev = lv[-1]
        new = [["not", x] for x in prev]
        for op in ops:
            for x in prev:
                leaf = c[(depth + 1) % 3]
                new.append(["logic", op, x, leaf])
                new.append(["logic", op, leaf, x])
        lv.append(new)
    return lv[1] + lv[2] + lv[3]


def chunks(tier, seed):
    out = [{"kind": "triples", "part": i, "of": 16} for i in range(16)]
    out += [{"kind": "logic3", "part": i, "of": 8} for i in range(8)]
    out += [{"kind": "spine3", "part": i, "of": 16} for i in range(16)]
    out += [{"kind": "critpos", "part": i, "of": 4} for i in range(4)]
    out.append({"kind": "shared"})
    if tier == "thorough":
        out += [{"kind": "core2", "part": i, "of": 64} for i in range(64)]
    return out


_CACHE = {}


def crit_pairs():
    """criteria given to one clause by two successive calls (the clause is their conjunction)"""
    c = [["cmp", ">", A_, ONE], ["logic", "OR", ["cmp", ">", A_, ONE], ["cmp", "<", B_, ONE]],
         ["logic", "AND", ["cmp", ">", A_, ONE], ["cmp", "<", B_, ONE]], ["logic", "XOR", ["cmp", ">", A_, ONE], ["cmp", "<", B_, ONE]],
         ["not", ["cmp", "=", A_, B_]], ["not", ["logic", "OR", ["cmp", ">", A_, ONE], ["cmp", "=", A_, B_]]],
         ["in", A_, [ONE, NEG1], False], ["between", B_, NEG1, ONE], ["isnull", A_],
         ["logic", "OR", ["logic", "AND", ["cmp", ">", A_, ONE], ["cmp", "<", B_, ONE]], ["cmp", "=", A_, B_]],
         # a scalar subquery as an operand: it is one operand, whatever criteria follow
         ["cmp", "=", A_, ["sub"]], ["cmp", "<", ["sub"], B_], ["cmp", "=", ["arith", "-", A_, ["sub"]], ONE]]
    out = []
    for pos in CRITPOS:
        for x in c:
            out.append({"pos": pos, "cs": [x]})
            for y in c:
                out.append({"pos": pos, "cs": [x, y]})
                if x is c[1] or y is c[1]:
                    out.append({"pos": pos, "cs": [x, y, c[0]]})
    return out


def expand(chunk):
    k = chunk["kind"]
    if k == "shared":
        # one term object on both sides of an operator (x = a-b; x-x): same grouping as for two equal objects
        inner = [["arith", "-", A_, B_], ["arith", "/", A_, B_], ["arith", "*", A_, B_], ["arith", "+", A_, B_], ["neg", A_], ["lit", -1],
                 ["cmp", "=", A_, B_], ["logic", "OR", ["cmp", ">", A_, ONE], ["cmp", "<", B_, ONE]], ["not", ["cmp", "=", A_, B_]]]
        for x in inner:
            for op in ARITH:
                yield {"e": ["arith", op, x, x], "shared": True}
                yield {"e": ["arith", op, ["arith", op, x, x], x], "shared": True}
            for op in ("=", "<"):
                yield {"e": ["cmp", op, x, x], "shared": True}
            for op in LOGIC:
                if x[0] in ("cmp", "logic", "not"):
                    yield {"e": ["logic", op, x, x], "shared": True}
                    yield {"e": ["logic", op, x, ["not", x]], "shared": True}
        return
    if k == "critpos":
        if "cp" not in _CACHE:
            _CACHE["cp"] = crit_pairs()
        src = _CACHE["cp"]
        for i in range(chunk["part"], len(src), chunk["of"]):
            yield src[i]
        return
    if k == "triples":
        if "t" not in _CACHE:
            _CACHE["t"] = list(triples())
        src = _CACHE["t"]
    elif k == "logic3":
        if "l3" not in _CACHE:
            _CACHE["l3"] = logic_closure()
        src = _CACHE["l3"]
    elif k == "core2":
        if "c2" not in _CACHE:
            _CACHE["c2"] = core_level(2)[2]
        src = _CACHE["c2"]
    else:
        if "s3" not in _CACHE:
            lv1 = core_level(1)[1]
            out = []
            for n, mk in core_ops():
                for n2, mk2 in core_ops():
                    for g in lv1:
                        for p2 in range(n2):
                            c2 = [A_, B_][:n2]
                            c2[p2] = g
                            mid = mk2(c2)
                            for p in range(n):
                                c = [A_, B_][:n]
                                c[p] = mid
                                out.append(mk(c))
            _CACHE["s3"] = out
        src = _CACHE["s3"]
    for i in range(chunk["part"], len(src), chunk["of"]):
        yield {"e": src[i]}


# ---- oracle -------------------------------------------------------------------------------------------------

_VALS = [None, -2, -1, 0, 1, 2, 3]
_conn = None


def _engine():
    global _conn
    if _conn is None:
        _conn = sqlite3.connect(":memory:")
        _conn.execute("CREATE TABLE ab(a, b)")
        _conn.executemany("INSERT INTO ab VALUES (?,?)", [(x, y) for x in _VALS for y in _VALS])
    return _conn


def top(e):
    return e[0] + (str(e[1]) if e[0] in ("arith", "rarith", "cmp", "logic") else "")


def kids(e):
    """[(pos, path, child)] — path addresses the child inside the JSON tree"""
    k = e[0]
    if k in ("neg", "not", "negate", "isnull", "notnull", "like", "bitand"):
        return [(0, (1,), e[1])]
    if k == "agg":
        return [(0, (2,), e[2])]
    if k in ("arith", "rarith", "cmp", "logic"):
        return [(0, (2,), e[2]), (1, (3,), e[3])]
    if k == "in":
        return [(0, (1,), e[1])] + [(1, (2, i), x) for i, x in enumerate(e[2])]
    if k == "between":
        return [(0, (1,), e[1]), (1, (2,), e[2]), (2, (3,), e[3])]
    if k == "case":
        return [(0, (1, 0, 0), e[1][0][0]), (1, (1, 0, 1), e[1][0][1])] + ([(2, (2,), e[2])] if e[2] is not None else [])
    if k == "func":
        return [(i, (2, i), a) for i, a in enumerate(e[2])]
    if k in ("pow", "mod"):
        return [(0, (1,), e[1]), (1, (2,), e[2])]
    return []


def with_kid(e, path, new):
    import copy as _c

    e2 = _c.deepcopy(e)
    x = e2
    for p in path[:-1]:
        x = x[p]
    x[path[-1]] = new
    return e2


def child_sig(e):
    return [(top(e), pos, top(c), c) for pos, path, c in kids(e) if isinstance(c, list)]


def minimal_failing(e, dialect, fails):
    """smallest failing sub-tree (the enumeration is closed under sub-terms, so this is a descent)."""
    for _, _, _, c in child_sig(e):
        if c[0] in ("col", "lit", "declit", "null"):
            continue
        if fails(c):
            return minimal_failing(c, dialect, fails)
    return e


def check_tree(e, d):
    """-> None if ok else (symptom, info)"""
    try:
        term = T(e)
    except (TypeError, AttributeError):
        return "invalid", None
    ctx = fp.CTX[d]
    sql = term.get_sql(ctx)
    lexd = "sqlite" if d == "generic" else d
    try:
        got = norm(parse_expr(sql, lexd))
    except (ParseError, LexError) as ex:
        return "unparsable", {"sql": sql, "error": str(ex)}
    exp = norm(B(e))
    if got != exp:
        return "regrouped", {"sql": sql, "parsed": got, "built": exp}
    return None


def childcat(c):
    k = c[0]
    if k == "lit":
        return "neglit" if (isinstance(c[1], (int, float)) and (c[1] < 0 or str(c[1]).startswith("-"))) else "leaf"
    if k == "declit":
        return "neglit" if c[1].startswith("-") else "leaf"
    if k in ("col", "null"):
        return "leaf"
    if k in ("arith", "rarith"):
        return "arith" + c[1]
    if k == "neg":
        return "neg"
    if k in ("cmp", "like", "in", "between", "isnull"):
        return "crit"
    if k == "negate":
        return "crit" if c[1][0] == "in" else "not"
    if k in ("not", "notnull"):
        return "not"
    if k == "logic":
        return "logic" + c[1]
    return "closed"  # case, func, agg, pow, mod, bitand: self-delimiting


def parentcat(e):
    k = e[0]
    if k in ("arith", "rarith"):
        return "arith" + e[1]
    if k in ("cmp", "like", "in", "between", "isnull"):
        return "cmpfam"
    if k == "notnull":
        return "cmpfam"  # NOT (x IS NULL): the operand relation is IS NULL / child
    if k in ("not", "negate"):
        return "not"
    if k == "logic":
        return "logic" + e[1]
    if k == "neg":
        return "neg"
    if k == "bitand":
        return "bitand"
    return "closed"


def sig_for(e, d, fails=None):
    """root-cause signature from the minimal failing sub-tree: parent category [L|R] child category"""
    if fails is None:
        def fails(x):
            r = check_tree(x, d)
            return r is not None and r[0] != "invalid"

    m = minimal_failing(e, d, fails)
    cands = [(pos, path, c) for pos, path, c in kids(m) if isinstance(c, list) and childcat(c) != "leaf"]
    # culprits: children whose replacement by a plain column makes the tree pass
    culprits = [(pos, path, c) for pos, path, c in cands if not fails(with_kid(m, path, ["col", "a"]))]
    if not culprits:
        culprits = cands
    pc0 = parentcat(m)

    def comp(pos, c):
        x = childcat(c)
        pc = pc0
        # a criterion of any kind used as an operand of arithmetic / comparison / unary minus is one root cause
        if (x in ("crit", "not") or x.startswith("logic")) and (pc.startswith("arith") or pc in ("cmpfam", "bitand", "neg")):
            x = "criterion"
            if pc.startswith("arith"):
                pc = "arith"
        return "%s[%s]%s" % (pc, "L" if pos == 0 else "R", x)

    trip = sorted(set(comp(pos, c) for pos, path, c in culprits))
    if not trip:
        trip = [parentcat(m) + "[]leaf"]
    return m, trip


def _fold(Q, cs, how):
    from pypika_tortoise import Table
    t = Table("ab")
    if how == "where2":
        q = Q.from_(t).select("a")
        for c in cs:
            q = q.where(T(c))
        return q, " WHERE ", None
    if how == "having2":
        q = Q.from_(t).select("a").groupby("a")
        for c in cs:
            q = q.having(T(c))
        return q, " HAVING ", None
    if how == "filter2":
        f = FN.Sum(Field("a"))
        for c in cs:
            f = f.filter(T(c))
        return Q.from_(t).select(f), " FILTER(WHERE ", ") FROM "
    if how == "delete_where2":
        q = Q.from_(t).delete()
        for c in cs:
            q = q.where(T(c))
        return q, " WHERE ", None
    if how == "update_where2":
        q = Q.update(t).set("a", 1)
        for c in cs:
            q = q.where(T(c))
        return q, " WHERE ", None
    if how == "case_when":
        from pypika_tortoise.terms import Case
        from pypika_tortoise.terms import Criterion
        return Q.from_(t).select(Case().when(Criterion.all([T(c) for c in cs]), 1).else_(0)), "CASE WHEN ", " THEN 1 ELSE 0 END"
    if how == "on_all":
        from pypika_tortoise.terms import Criterion
        u = Table("cd")
        return Q.from_(t).join(u).on(Criterion.all([T(c) for c in cs])).select(u.star), " ON ", None
    raise ValueError(how)


CRITPOS = ["where2", "having2", "filter2", "delete_where2", "update_where2", "case_when", "on_all"]


def run_critpos(case):
    """criteria that reach one clause through several calls (where().where(), having().having(), filter().filter(),
    Criterion.all): the clause must read as the conjunction of the criteria, each with its own grouping intact"""
    res = Result()
    cs, pos = case["cs"], case["pos"]
    want_tree = cs[0]
    for c in cs[1:]:
        want_tree = ["logic", "AND", want_tree, c]
    exp = norm(B(want_tree))
    res.nontrivial = 1
    res.states.append(h64(repr(case)))
    for d in fp.CTX:
        Q = fp.QCLS[d]
        res.transitions += 1
        try:
            q, start, end = _fold(Q, cs, pos)
            sql = q.get_sql(Q.SQL_CONTEXT) if hasattr(Q, "SQL_CONTEXT") else str(q)
        except Exception as ex:
            res.violate("C06|critpos|%s|raises" % pos, "building/rendering raised %s" % type(ex).__name__, case=case, dialect=d, error=str(ex)[:200])
            continue
        res.outcomes.append(h64(sql))
        i = sql.find(start)
        frag = sql[i + len(start):] if i >= 0 else ""
        if end is not None:
            j = frag.rfind(end)
            frag = frag[:j] if j >= 0 else ""
        lexd = "sqlite" if d == "generic" else d
        try:
            got = norm(parse_expr(frag, lexd))
        except (ParseError, LexError) as ex:
            res.violate("C06|critpos|%s|unparsable" % pos, "the clause does not parse as one criterion", case=case, dialect=d, sql=sql, fragment=frag,
                        error=str(ex))
            continue
        if got != exp:
            res.violate("C06|critpos|%s|regrouped" % pos, "the clause is not the conjunction of the criteria given by the calls (grouping lost)",
                        case=case, dialect=d, sql=sql, parsed=got, built=exp)
    return res


def run_case(case):
    if "pos" in case:
        return run_critpos(case)
    if case.get("shared"):
        _SHARE["memo"] = {}
        try:
            return _run_case(case)
        finally:
            _SHARE["memo"] = None
    return _run_case(case)


def _run_case(case):
    res = Result()
    e = case["e"]
    try:
        term = T(e)
    except (TypeError, AttributeError) as ex:
        res.extra["invalid_programs"] = 1
        return res
    res.nontrivial = 1
    res.states.append(h64(repr(e)))
    fresh = {}
    inline_bad = set()
    for d in fp.CTX:
        res.transitions += 1
        r = check_tree(e, d)
        sql = term.get_sql(fp.CTX[d])
        fresh[d] = sql
        res.outcomes.append(h64(sql))
        if r is not None and r[0] != "invalid":
            inline_bad.add(d)
            m, sgs = sig_for(e, d)
            for sg in sgs:  # one violation per culprit child: a composite witness is explained by its parts
                dcls = "mysql" if d == "mysql" else "std"  # only MySQL lexes '--' differently
                if "neglit" not in sg and "neg" not in sg.split("]")[-1]:
                    dcls = "any"
                res.violate("C06|%s|%s" % (sg, dcls),
                            "rendered expression %s (dialect %s); minimal failing sub-tree %r" % (r[0], d, m),
                            tree=e, dialect=d, **r[1])
    # every member of the Dialects enum (not only the six with a query class): grouping does not depend on the dialect
    if "generic" not in inline_bad:
        exp_m = None
        for m in _DIALECT_MEMBERS:
            res.transitions += 1
            try:
                sqlm = term.get_sql(fp.CTX["generic"].copy(dialect=m))
            except Exception as ex:
                sqlm = "!" + type(ex).__name__
            if sqlm == fresh["generic"]:
                continue
            try:
                gotm = norm(parse_expr(sqlm, "mysql" if m.name == "MYSQL" else "sqlite"))
            except (ParseError, LexError) as ex:
                gotm = ("unparsable", str(ex))
            if exp_m is None:
                exp_m = norm(B(e))
            if gotm != exp_m:
                res.violate("C06|dialect-member|%s|%s" % (m.name, top(e)), "the expression groups differently (or does not parse) under the context of "
                            "this member of the Dialects enum", tree=e, member=m.name, sql=sqlm, generic=fresh["generic"])
    # the term as an output column (the top node is rendered with with_alias=True there): same text, it carries no alias
    for d in fp.CTX:
        if d in inline_bad:
            continue
        res.transitions += 1
        if _SHARE["memo"] is not None:
            _SHARE["memo"] = {}
        sql_al = T(e).get_sql(fp.CTX[d].copy(with_alias=True))
        if sql_al != fresh[d]:
            res.violate("C06|output-column|%s" % parentcat(e), "the expression is grouped differently when it is rendered as an output column (with_alias=True)",
                        tree=e, dialect=d, plain=fresh[d], as_output_column=sql_al)
            break
    # parameterised rendering: placeholders are atoms; with the values put back the text must parse to the tree that was built
    def pfails_for(d):
        lexd = "sqlite" if d == "generic" else d

        def pf(x):
            try:
                tx = T(x)
            except (TypeError, AttributeError):
                return False
            try:
                psql, vals = fp.render_param(tx, fp.CTX[d])
                return norm(parse_expr(psql, lexd, values=list(vals))) != norm(B(x))
            except (ParseError, LexError):
                return True
            except Exception:
                return True
        return pf

    for d in fp.CTX:
        if d in inline_bad:
            continue  # already reported for the inline form
        res.transitions += 1
        pf = pfails_for(d)
        if pf(e):
            m, sgs = sig_for(e, d, pf)
            psql, vals = fp.render_param(T(e), fp.CTX[d])
            for sg in sgs:
                res.violate("C06|%s|any" % sg if "criterion" in sg else "C06|%s|param" % sg,
                            "the parameterised rendering does not group as built (minimal failing sub-tree %r)" % (m,),
                            tree=e, dialect=d, inline=fresh[d], parameterised=psql, values=fp.vrepr(vals))
            break
    # render history: every sub-term rendered (and hashed) on its own first - at top level, where a criterion carries no
    # parentheses - then the whole expression: the grouping must not depend on what was rendered before
    term2 = T(e)
    try:
        for n in list(term2.nodes_()):
            if hasattr(n, "get_sql") and n is not term2:
                n.get_sql(fp.CTX["generic"])
                str(n)
                hash(n)
    except Exception:
        pass
    for d in fp.CTX:
        res.transitions += 1
        sql2 = term2.get_sql(fp.CTX[d])
        if sql2 != fresh[d]:
            res.violate("C06|render-history|%s" % parentcat(e), "the expression renders differently after its sub-terms were rendered on their own",
                        tree=e, dialect=d, fresh=fresh[d], after=sql2)
            break
    # SQLite second opinion (values): rendered vs fully parenthesised reference on all assignments
    sql = term.get_sql(fp.CTX["sqlite"])
    ref = R(e)
    con = _engine()
    try:
        want = con.execute("SELECT %s FROM ab ORDER BY rowid" % ref).fetchall() if e[0] != "agg" and "SUM" not in ref \
            else con.execute("SELECT %s FROM ab GROUP BY rowid ORDER BY rowid" % ref).fetchall()
    except sqlite3.Error:
        want = None
    if want is not None:
        res.transitions += 1
        try:
            q = "SELECT %s FROM ab ORDER BY rowid" % sql if "SUM" not in ref else \
                "SELECT %s FROM ab GROUP BY rowid ORDER BY rowid" % sql
            got = con.execute(q).fetchall()
        except sqlite3.Error as ex:
            got = "error: %s" % ex
        if got != want and check_tree(e, "sqlite") is None:
            # the (dialect-neutral) precedence model accepted it but the engine disagrees: SQLite ranks < <= > >=
            # above = <> IS IN LIKE.  Attribute with the engine itself as the failure predicate.
            def efails(x):
                try:
                    tx = T(x)
                except (TypeError, AttributeError):
                    return False
                sx, rx = tx.get_sql(fp.CTX["sqlite"]), R(x)
                grp = " GROUP BY rowid" if "SUM" in rx else ""
                try:
                    w = con.execute("SELECT %s FROM ab%s ORDER BY rowid" % (rx, grp)).fetchall()
                except sqlite3.Error:
                    return False
                try:
                    g = con.execute("SELECT %s FROM ab%s ORDER BY rowid" % (sx, grp)).fetchall()
                except sqlite3.Error:
                    return True
                return g != w

            m, sgs = sig_for(e, "sqlite", efails)
            for sg in sgs:
                res.violate("C06|%s|engine" % sg, "SQLite evaluates the rendered expression differently from its fully "
                            "parenthesised transcription (minimal failing sub-tree %r)" % (m,),
                            tree=e, sql=sql, ref=ref, got=str(got)[:200], want=str(want)[:200])
        res.extra["engine_evaluations"] = 1
    return res


def describe():
    return {
        "rule": "expression trees enumerated simplest-first: all parent/position/child triples of 33 operators x "
                "8 leaf kinds (quick); + level-2 closure of the 10-operator core over leaves {a,b,1,-1} and depth-3 "
                "spines (thorough); non-trivial = the public API accepted the program; distinct = distinct trees",
        "bound": {"quick": "depth 2: every parent/child/operand-position triple; six contexts",
                  "thorough": "quick + full depth-2 closure of the core (about 160k trees) + depth-3 spines"},
        "assumptions": [
            "standard SQL precedence table in mc/exprparse.py; comparison chains parse left-associatively",
            "allowed re-associations: pure +/- chain (signed operands), pure * chain, one-connective AND/OR/XOR "
            "chain; unary minus is treated as a sign of multiplicative terms (cannot change a value)",
            "a render decision depends on a node and its children's top-level operators, so depth 2-3 covers it",
        ],
    }
