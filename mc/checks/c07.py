"""C07 — user-supplied names are emitted as single, correctly quoted identifiers.

Bounded-exhaustive: all names of length <= 2 (thorough <= 3) over an adversarial alphabet + keywords x every
emission site x six dialects.  Differential + decoding oracle through the dialect's reference lexer: the token
stream with name N differs from the stream with a benign name only at identifier tokens, each delimited by the
dialect's identifier quote and decoding to exactly N; definition and references are the same token.
SQLite executes representative statements against a schema carrying those exact names.
"""
from __future__ import annotations

import itertools
import sqlite3

from mc.common import Result, h64
from mc import fp
from mc.lexer import LexError, lex

from pypika_tortoise import Database, Schema, AliasedQuery, Field, Query, Table
from pypika_tortoise import functions as FN
from pypika_tortoise.queries import Column
from pypika_tortoise.terms import Index, SystemTimeValue, ValueWrapper

PROPERTY = "C07"

ALPHA = ["a", "A", '"', "`", "'", ".", " ", "[", "]", "é", "-", "{", "}"]
EXTRA = ["select", "from", "order", "MiXed", "a b c", "x--y", "/*c*/", "%s", "$1", "?", "{type}", "{0}", "a{{b}}", "{join}", "%(x)s", "%d",
         # names that are attributes / methods of the library's own objects, and very short names
         "alias", "star", "field", "update", "insert", "limit", "as_", "get_sql", "_table_name", "t1", "ab"]
BENIGN = "zq1"
QUOTE = {"generic": '"', "sqlite": '"', "postgresql": '"', "mssql": '"', "oracle": '"', "mysql": "`"}


def names(maxlen):
    out = []
    for n in range(1, maxlen + 1):
        out += ["".join(p) for p in itertools.product(ALPHA, repeat=n)]
    return out + EXTRA


def T():
    return Table("t")


def U():
    return Table("u")


SITES = {
    "table_from": lambda Q, N: Q.from_(Table(N)).select("a"),
    "table_from_field": lambda Q, N: Q.from_(Table(N)).join(U()).on(Table(N).id == U().id).select(Table(N).a),
    "table_join": lambda Q, N: Q.from_(T()).join(Table(N)).on(T().id == Table(N).id).select(T().a),
    "table_insert": lambda Q, N: Q.into(Table(N)).insert(1),
    "table_update": lambda Q, N: Q.update(Table(N)).set("a", 1),
    "table_delete": lambda Q, N: Q.from_(Table(N)).delete(),
    "table_create": lambda Q, N: Q.create_table(Table(N)).columns("a"),
    "table_drop": lambda Q, N: Q.drop_table(Table(N)),
    "table_drop_schema": lambda Q, N: Q.drop_table(Table("t", schema=N)).if_exists(),
    "table_create_str": lambda Q, N: Q.create_table(N).columns(Column("a", "INT")).if_not_exists(),
    "schema": lambda Q, N: Q.from_(Table("t", schema=N)).select("a"),
    "schema_nested": lambda Q, N: Q.from_(Table("t", schema=[N, "s"])).select("a"),
    "schema_nested3_mid": lambda Q, N: Q.from_(Table("t", schema=["top9", N, "s9"])).select("a"),
    "schema_nested3_first": lambda Q, N: Q.from_(Table("t", schema=(N, "mid9", "s9"))).select("a"),
    "schema_nested4": lambda Q, N: Q.from_(Table("t", schema=["top9", "mid9", N, "s9"])).join(Table("u", schema=["top9", N])).on(
        Table("t", schema=["top9", "mid9", N, "s9"]).id == Table("u", schema=["top9", N]).id).select("a"),
    "schema_database": lambda Q, N: Q.from_(Table("t", schema=Schema("s9", parent=Database(N)))).select("a"),
    "column_select": lambda Q, N: Q.from_(T()).select(T().field(N)),
    "column_select_str": lambda Q, N: Q.from_(T()).select(N) if N != "*" else Q.from_(T()).select("a"),
    "column_where": lambda Q, N: Q.from_(T()).select("a").where(T().field(N) == 1),
    "column_group_order": lambda Q, N: Q.from_(T()).select(FN.Count("*")).groupby(T().field(N)).orderby(T().field(N)),
    "column_set": lambda Q, N: Q.update(T()).set(T().field(N), 1),
    # columns reached by subscripting the row source
    "column_subscript": lambda Q, N: Q.from_(T()).select(T()[N]).where(T()[N] == 1),
    "column_subscript_subquery": lambda Q, N: (lambda sq: Q.from_(sq).select(sq[N]))(Q.from_(T()).select(T().field(N)).as_("sq")),
    # columns named by a string handed to the builder call itself
    "column_group_order_str": lambda Q, N: Q.from_(T()).select(FN.Count("*")).groupby(N).orderby(N) if N != "*" else None,
    "column_order_str_multi": lambda Q, N: Q.from_(T()).select("a").orderby("b", N, "c") if N != "*" else None,
    "column_set_str": lambda Q, N: Q.update(T()).set(N, 1),
    "column_on_field": lambda Q, N: Q.from_(T()).join(U()).on_field(N).select(T().a),
    "column_insert": lambda Q, N: Q.into(T()).columns(N, "b").insert(1, 2),
    "column_on_conflict": lambda Q, N: Q.into(T()).insert(1).on_conflict(N).do_update(N, 2),
    "column_using": lambda Q, N: Q.from_(T()).join(U()).using(N).select(T().a),
    "table_alias": lambda Q, N: Q.from_(Table("t", alias=N)).select(Table("t", alias=N).a).where(Table("t", alias=N).b == 1),
    "table_alias_temporal": lambda Q, N: (lambda ta: Q.from_(ta).select(ta.a).where(ta.b == 1))(Table("t", alias=N).for_(SystemTimeValue().as_of("2020-01-01"))),
    "table_alias_temporal_join": lambda Q, N: (lambda ta: Q.from_(T()).join(ta).on(T().id == ta.id).select(ta.a))(
        Table("u", alias=N).for_portion(SystemTimeValue().from_to("2020-01-01", "2020-02-01"))),
    "table_from_str": lambda Q, N: Q.from_(N).select("a"),
    "table_into_str": lambda Q, N: Q.into(N).insert(1),
    "table_update_str": lambda Q, N: Q.update(N).set("a", 1),
    "table_join_str": lambda Q, N: Q.from_(T()).join(Table(N)).on(T().id == Table(N).id).select(T().a, Table(N).b).where(Table(N).c == 1),
    # the table is replaced (by an equal, separately built Table object): its name must be gone from every reference
    "replaced_table_gone": lambda Q, N: (Q.from_(Table(N)).join(U()).on(Table(N).id == U().id).select(Table(N).a, Table(N).star)
                                          .where(Table(N).b == 1).replace_table(Table(N), Table("zznew9"))),
    "replaced_alias_gone": lambda Q, N: (Q.from_(Table("t", alias=N)).select(Table("t", alias=N).a).where(Table("t", alias=N).b == 1)
                                          .replace_table(Table("t", alias=N), Table("t", alias="zznew9"))),
    "table_factory": lambda Q, N: (lambda t: Q.from_(t).select(t.a).where(t.b == 1))(Q.Tables(N, "zz9")[0]),
    "table_factory_second": lambda Q, N: (lambda t: Q.from_(t).select(t.a).where(t.b == 1))(Q.Tables("zz9", N)[1]),
    "table_factory_tuple": lambda Q, N: (lambda t: Q.from_(t).select(t.a).where(t.b == 1))(Q.Tables(("base9", N))[0]),
    "table_factory_single": lambda Q, N: (lambda t: Q.from_(t).select(t.a))(Q.Table(N)),
    "const_alias": lambda Q, N: Q.from_(T()).select(T().id, ValueWrapper("x").as_(N)).orderby(ValueWrapper("x").as_(N)),
    "const_alias_ctor": lambda Q, N: Q.from_(T()).select(ValueWrapper(5, alias=N), T().id),
    "table_alias_star": lambda Q, N: (lambda ta: Q.from_(ta).join(U()).on(ta.id == U().id).select(ta.star, U().a))(Table("t", alias=N)),
    "table_alias_star_single": lambda Q, N: (lambda ta: Q.from_(ta).select(ta.star))(Table("t", alias=N)),
    "subquery_alias_star": lambda Q, N: (lambda s: Q.from_(s).select(s.star))(Q.from_(T()).select("a").as_(N)),
    "term_alias": lambda Q, N: Q.from_(T()).select(T().a.as_(N)),
    "term_alias_func": lambda Q, N: Q.from_(T()).select(FN.Max(T().a).as_(N), (T().b + 1).as_("k")),
    # the alias handed to the constructor of a function class instead of as_() (one site per class, see _ctor_alias_sites below)
    "alias_ref_group_order": lambda Q, N: Q.from_(T()).select((T().a + 1).as_(N), FN.Count("*")).groupby((T().a + 1).as_(N)).orderby((T().a + 1).as_(N)),
    # another continuation of the same partial query selected an item under the alias; this one did not: the alias is not
    # a name of this statement and must not be emitted (the grouped / ordered term is printed as an expression)
    "alias_of_sibling_only": lambda Q, N: (lambda base: (base.select((T().a + 1).as_(N)), base.select(T().b).groupby((T().a + 1).as_(N)).orderby((T().a + 1).as_(N)))[1])(
        Q.from_(T())),
    "subquery_alias": lambda Q, N: (lambda s: Q.from_(s).select(s.a))(Q.from_(T()).select("a").as_(N)),
    "index_force": lambda Q, N: Q.from_(T()).select("a").force_index(N),
    "index_use": lambda Q, N: Q.from_(T()).select("a").use_index(Index(N)),
    "for_update_of": lambda Q, N: Q.from_(T()).select("a").for_update(of=(N,)),
    # the column list of a CTE; lock targets that differ in case only
    "cte_columns": lambda Q, N: Q.with_(Query.from_(U()).select("a", "b"), "c9", Field(N), Field("k9")).from_(AliasedQuery("c9")).select("*"),
    "cte_columns_last": lambda Q, N: Q.with_(Query.from_(U()).select("a", "b", "c"), "c9", Field("j9"), Field("k9"), Field(N)).from_(AliasedQuery("c9")).select("*"),
    "for_update_of_case": lambda Q, N: Q.from_(T()).select("a").for_update(of=(N, "Zq8x", "zq8x", "ZQ8X")),
    "cte": lambda Q, N: Q.with_(Query.from_(U()).select("a"), N).from_(AliasedQuery(N)).select(AliasedQuery(N).a),
    "ddl_column": lambda Q, N: Q.create_table("t").columns(Column(N, "INT"), "b").unique(N).primary_key(N),
    # an earlier declared column that differs from the constraint's column only by letter case
    "ddl_constraint_case": lambda Q, N: (Q.create_table("t").columns(Column(N.swapcase(), "INT"), Column(N, "INT")).unique(N).primary_key(N)
                                         if N.swapcase() != N else None),
    "ddl_constraint_case_late": lambda Q, N: (Q.create_table("t").columns(Column(N, "INT")).columns(Column(N.swapcase(), "INT")).unique(N.swapcase())
                                              if N.swapcase() != N else None),
    "update_from_subquery_alias": lambda Q, N: (lambda s: Q.update(T()).from_(s).set(T().a, s.x).where(T().id == s.id))(
        Q.from_(U()).select("id", "x").as_(N)),
    "update_join_subquery_alias": lambda Q, N: (lambda s: Q.update(T()).join(s).on(T().id == s.id).set(T().a, s.x))(
        Q.from_(U()).select("id", "x").as_(N)),
    "update_from_setop_alias": lambda Q, N: (lambda s: Q.update(T()).from_(s).set(T().a, s.x).where(T().id == s.x))(
        Q.from_(U()).select("x").union(Q.from_(T()).select("x")).as_(N)),
    "join_subquery_alias": lambda Q, N: (lambda s: Q.from_(T()).join(s).on(T().id == s.id).select(s.x))(Q.from_(U()).select("id", "x").as_(N)),
    "delete_where_subquery_alias": lambda Q, N: (lambda s: Q.from_(T()).delete().where(T().id.isin(Q.from_(s).select(s.id))))(
        Q.from_(U()).select("id").as_(N)),
    "insert_select_subquery_alias": lambda Q, N: (lambda s: Q.into(T()).columns("a").from_(s).select(s.x))(Q.from_(U()).select("x").as_(N)),
    "ddl_period_end": lambda Q, N: Q.create_table("t").columns("a9", N).period_for("p9", "a9", N),
    "ddl_period_end_col": lambda Q, N: Q.create_table("t").columns("a9", N).period_for("p9", Column("a9"), Column(N)),
    # the two period columns given in different ways (a name and a Column object, either way round)
    "ddl_period_end_mixed": lambda Q, N: Q.create_table("t").columns("a9", N).period_for("p9", "a9", Column(N)),
    "ddl_period_start_mixed": lambda Q, N: Q.create_table("t").columns(N, "b9").period_for("p9", Column(N), "b9"),
    "ddl_period_start_mixed2": lambda Q, N: Q.create_table("t").columns(N, "b9").period_for("p9", N, Column("b9")),
    # CREATE TABLE .. AS SELECT: the SELECT is part of the statement (same class; another dialect's class)
    "create_as_select": lambda Q, N: Q.create_table("n9").as_select(Q.from_(Table(N)).select(Table(N).field(N))),
    "create_as_select_other_cls": lambda Q, N: Q.create_table("n9").as_select(
        (fp.QCLS["generic"] if Q is fp.QCLS["mysql"] else fp.QCLS["mysql"]).from_(Table(N)).select(Table(N).field(N))),
    "ddl_period": lambda Q, N: Q.create_table("t").columns("a", "b").period_for(N, "a", "b"),
    "ddl_period_cols": lambda Q, N: Q.create_table("t").columns(N, "b").period_for("p", N, "b"),
    "setop_order_alias": lambda Q, N: Q.from_(T()).select(T().a.as_(N)).union(Q.from_(U()).select(U().a.as_(N))).orderby(T().a.as_(N)),
    "pg_returning": lambda Q, N: Q.into(T()).insert(1).returning(N) if Q.__name__ == "PostgreSQLQuery" else None,
    "pg_distinct_on": lambda Q, N: Q.from_(T()).distinct_on(N).select("a") if Q.__name__ == "PostgreSQLQuery" else None,
    "mysql_upsert_alias": lambda Q, N: Q.into(T()).insert(1).as_(N).on_conflict().do_update("a") if Q.__name__ == "MySQLQuery" else None,
}


def _ctor_alias_sites():
    import inspect
    out = {}
    for name, cls in sorted(vars(FN).items()):
        if not (inspect.isclass(cls) and cls.__module__ == FN.__name__):
            continue
        try:
            if "alias" not in inspect.signature(cls.__init__).parameters:
                continue
            cls(Table("t").a, alias="probe").get_sql(Query.SQL_CONTEXT)
        except Exception:
            continue  # other constructor shape (no single-term form)
        out["func_alias_ctor_" + name] = (lambda c: lambda Q, N: Q.from_(T()).select(c(T().a, alias=N), T().id))(cls)
    return out


SITES.update(_ctor_alias_sites())
for _k in [k for k in SITES if k.startswith("func_alias_ctor_")]:
    pass

REQUIRED_IDS = {"schema_nested3_mid": ["top9", "s9", "t"], "schema_nested3_first": ["mid9", "s9", "t"], "schema_nested4": ["top9", "mid9", "s9", "t", "u"],
                "schema_database": ["s9", "t"], "schema_nested": ["s", "t"]}
EXPECT_ABSENT = {"alias_of_sibling_only", "replaced_table_gone", "replaced_alias_gone"}
EXPECT_COUNTS = {"ddl_constraint_case": (3, 1), "ddl_constraint_case_late": (1, 2)}
# exact number of times the name must be emitted (absolute: the benign rendering is made by the same library)
NAME_COUNT = {"table_factory": 1, "table_factory_second": 1, "table_factory_tuple": 3, "table_factory_single": 1, "const_alias": 2, "const_alias_ctor": 1,
              "table_alias_temporal": 3, "table_alias_temporal_join": 3, "table_from_str": 1, "table_into_str": 1, "table_update_str": 1, "table_join_str": 4,
              "table_alias_star": 3, "table_alias_star_single": 2, "subquery_alias_star": 2, "ddl_period_end": 2, "ddl_period_end_col": 2, "ddl_period_end_mixed": 2, "ddl_period_start_mixed": 2, "ddl_period_start_mixed2": 2,
              "create_as_select": 2, "create_as_select_other_cls": 2,
              "ddl_period_cols": 2, "ddl_period": 1, "table_alias": 3, "subquery_alias": 2, "ddl_column": 3}
REQUIRED_MORE = {"cte_columns": ["k9"], "cte_columns_last": ["j9", "k9"], "for_update_of_case": ["Zq8x", "zq8x", "ZQ8X"],
                 "ddl_period_end_mixed": ["a9", "p9"], "ddl_period_start_mixed": ["b9", "p9"], "ddl_period_start_mixed2": ["b9", "p9"],
                 "create_as_select": ["n9"], "create_as_select_other_cls": ["n9"], "ddl_period_end": ["a9", "p9"], "ddl_period_end_col": ["a9", "p9"], "ddl_period_cols": ["b", "p"]}


class _StrSub(str):
    """a user's own string type (e.g. a validated identifier class, a StrEnum-like constant)"""


def render(o, Q):
    # always with the dialect's own context (that DDL builders created through a dialect class pick it up by
    # themselves is C08's business)
    return o.get_sql(Q.SQL_CONTEXT)


def chunks(tier, seed):
    return [{"d": d, "site": s, "maxlen": 2 if tier == "quick" else 3} for d in fp.CTX for s in SITES]


def expand(chunk):
    for n in names(chunk["maxlen"]):
        yield {"d": chunk["d"], "site": chunk["site"], "name": n}


_BEN = {}
_db = None


def nameclass(n, d):
    q = QUOTE[d]
    cl = []
    if q in n:
        cl.append("quote-char")
    if d == "mssql" and "]" in n:
        pass
    return "+".join(cl) or "plain"


def run_case(case):
    res = Result()
    d, site, N = case["d"], case["site"], case["name"]
    Q = fp.QCLS[d]
    lexd = "sqlite" if d == "generic" else d
    try:
        o = SITES[site](Q, N)
    except Exception as e:
        res.violate("C07|%s|raises|%s" % (site, type(e).__name__), "building with this name raised", dialect=d, name=N, error=str(e)[:150])
        return res
    if o is None:
        return res
    res.nontrivial = 1
    sql = render(o, Q)
    # the statement was created through the dialect's query class: str() and the argument-less get_sql() must give the same
    # text as the explicit dialect context (a fallback to another context shows in the quote character)
    for mode, fn in (("str", lambda: str(o)), ("noarg", lambda: o.get_sql())):
        try:
            alt = fn()
        except TypeError:
            continue
        res.transitions += 1
        if alt != sql:
            res.violate("C07|%s|%s|%s-differs" % (site if "ddl" in site or site.startswith("table_") else "statement", d, mode),
                        "%s of a statement built through the %s query class differs from its rendering with that dialect's context" % (mode, d),
                        dialect=d, site=site, name=N, with_context=sql, got=alt)
            return res
    # a name is a name whatever its Python class: the same text carried by a subclass of str gives the same statement
    try:
        sql_sub = render(SITES[site](Q, _StrSub(N)), Q)
    except Exception as e:
        sql_sub = "!" + type(e).__name__
    res.transitions += 1
    if sql_sub != sql:
        res.violate("C07|%s|str-subclass-differs" % site, "the name given as an instance of a str subclass is treated differently from the same text as a plain str",
                    dialect=d, site=site, name=N, plain=sql, subclass=sql_sub)
        return res
    key = (d, site)
    if key not in _BEN:
        bsql = render(SITES[site](Q, BENIGN), Q)
        try:
            _BEN[key] = (bsql, [(t.kind, t.value, t.text[:1]) for t in lex(bsql, lexd)])
        except LexError as e:
            res.violate("C07|%s|%s|unlexable" % (site, d), "the statement does not lex even with a plain name", dialect=d, site=site, name=BENIGN, sql=bsql, error=str(e))
            return res
    bsql, bt = _BEN[key]
    res.transitions += 1
    res.outcomes.append(h64(sql))
    res.states.append(h64(repr((d, site))))
    quote_in_name = QUOTE[d] in N
    unquoted_site = any(bk == "WORD" and bv == BENIGN.upper() for bk, bv, bq in bt)
    if unquoted_site:
        # the site emits names bare: every consequence (keywords, spaces, comment openers ...) has that one root cause
        res.violate("C07|%s|unquoted" % site, "the name is emitted without identifier quotes at this site", dialect=d, site=site,
                    name=N, sql=sql, benign=bsql)
        return res
    # names containing the dialect's identifier quote character: one root cause whatever the site
    sigbase = "C07|quote-char-in-name|%s" % d if quote_in_name else "C07|%s|%s" % (site, d)
    try:
        toks = lex(sql, lexd)
    except LexError as e:
        res.violate(sigbase + ("" if quote_in_name else "|unlexable"), "the statement does not lex: the name broke out of its identifier",
                    dialect=d, site=site, name=N, sql=sql, error=str(e))
        return res
    if any(t.kind == "COM" for t in toks):
        res.violate(sigbase + ("" if quote_in_name else "|comment"), "part of the name is read as a comment", dialect=d, site=site, name=N, sql=sql)
        return res
    if len(toks) != len(bt):
        res.violate(sigbase + ("" if quote_in_name else "|token-count"), "the name is not emitted as exactly one token (token count differs "
                    "from the rendering with a benign name)", dialect=d, site=site, name=N, sql=sql, benign=bsql)
        return res
    n_ids = 0
    for t, (bk, bv, bq) in zip(toks, bt):
        if bk == "ID" and bv == BENIGN.swapcase():
            # the case variant declared next to the name (ddl_constraint_case): must stay exactly that
            if t.kind != "ID" or t.value != N.swapcase():
                res.violate(sigbase + ("" if quote_in_name else "|wrong-name"), "identifier token does not denote the supplied name "
                            "(expected the case variant %r)" % N.swapcase(), dialect=d, site=site, name=N, sql=sql, token=t.text)
                return res
            continue
        if (bk in ("ID", "WORD")) and (bv == BENIGN or bv == BENIGN.upper()):
            n_ids += 1
            if bk == "WORD":
                res.violate("C07|%s|unquoted" % site, "the name is emitted without identifier quotes at this site", dialect=d, site=site,
                            name=N, sql=sql, benign=bsql)
                return res
            if t.kind != "ID" or t.value != N:
                res.violate(sigbase + ("" if quote_in_name else "|wrong-name"), "identifier token does not denote the supplied name",
                            dialect=d, site=site, name=N, sql=sql, token=t.text)
                return res
            if t.text[0] != QUOTE[d]:
                res.violate("C07|%s|%s|wrong-quote-char" % (site, d), "identifier is not delimited by the dialect's identifier quote",
                            dialect=d, site=site, name=N, sql=sql, token=t.text)
                return res
        else:
            if (t.kind, t.value) != (bk, bv):
                res.violate(sigbase + ("" if quote_in_name else "|structure"), "the name changed another token of the statement",
                            dialect=d, site=site, name=N, sql=sql, benign=bsql, token=t.text)
                return res
    if site in NAME_COUNT and N not in ("t", "u", "a", "b", "p", "s", "id", "x"):
        got_n = sum(1 for t in toks if t.kind == "ID" and t.value == N)
        if got_n != NAME_COUNT[site]:
            res.violate("C07|%s|name-count" % site, "the name is emitted %d times, expected %d (it stands where another name belongs, or is missing where it belongs)"
                        % (got_n, NAME_COUNT[site]), dialect=d, site=site, name=N, sql=sql)
            return res
    if site in NAME_COUNT and N not in ("t", "u", "a", "b", "p", "s", "id", "x") and callable(getattr(type(o), "get_parameterized_sql", None)):
        # the same count through the parameterised channel
        try:
            ptoks = lex(o.get_parameterized_sql()[0], lexd)
            got_p = sum(1 for t in ptoks if t.kind == "ID" and t.value == N)
        except LexError:
            got_p = -1
        res.transitions += 1
        if got_p != NAME_COUNT[site] and not quote_in_name:
            res.violate("C07|%s|name-count|parameterised" % site, "in the parameterised rendering the name is emitted %d times, expected %d" % (got_p, NAME_COUNT[site]),
                        dialect=d, site=site, name=N, sql=o.get_parameterized_sql()[0])
            return res
    for need in list(REQUIRED_IDS.get(site, ())) + REQUIRED_MORE.get(site, []):
        if not any(t.kind == "ID" and t.value == need for t in toks):
            res.violate("C07|%s|qualifier-lost" % site, "a qualifier of the multi-level name (%r) is not emitted" % need, dialect=d, site=site, name=N, sql=sql)
            return res
    if site in EXPECT_ABSENT:
        if any(t.kind == "ID" and t.value == N for t in toks) and N not in ("a", "b", "t"):
            res.violate("C07|%s|undefined-name-emitted" % site, "a name that this statement does not define is emitted", dialect=d, site=site, name=N, sql=sql)
        return res
    if n_ids == 0:
        res.violate("C07|%s|%s|name-not-emitted" % (site, d), "the benign name does not appear as a token at all", dialect=d, site=site, sql=bsql)
    # absolute expectations (the rendering with the benign name comes from the same library and cannot vouch for these)
    if site in EXPECT_COUNTS and N.swapcase() != N:
        want = EXPECT_COUNTS[site]
        got = (sum(1 for t in toks if t.kind == "ID" and t.value == N), sum(1 for t in toks if t.kind == "ID" and t.value == N.swapcase()))
        if got != want:
            res.violate("C07|%s|wrong-column" % site, "the constraint names another column than the one supplied (occurrences of the name / of "
                        "its case variant: %s, expected %s)" % (got, want), dialect=d, site=site, name=N, sql=sql)
    if "alias" in site and site != "mysql_upsert_alias":
        # an alias that qualifies a column must be defined in the statement (a defining occurrence is not followed by '.')
        quals = sum(1 for i, t in enumerate(toks) if t.kind == "ID" and t.value == N and i + 1 < len(toks) and toks[i + 1].text == ".")
        defs = sum(1 for i, t in enumerate(toks) if t.kind == "ID" and t.value == N and not (i + 1 < len(toks) and toks[i + 1].text == "."))
        if quals and not defs and N not in ("t", "u", "a", "x", "id", "b"):
            res.violate("C07|%s|%s|alias-not-defined" % (site, d), "the alias qualifies a column but is defined nowhere in the statement",
                        dialect=d, site=site, name=N, sql=sql)
    # SQLite: the statement runs against a schema carrying that exact name
    if d == "sqlite" and site in ("table_from", "column_select", "table_alias", "term_alias", "alias_ref_group_order", "subquery_alias",
                                  "column_where", "table_join", "column_insert", "cte", "update_from_subquery_alias",
                                  "join_subquery_alias", "delete_where_subquery_alias",
                                  "insert_select_subquery_alias") and "\0" not in N:
        global _db
        db = sqlite3.connect(":memory:")
        qn = '"' + N.replace('"', '""') + '"'
        try:
            if site in ("table_from", "table_join"):
                db.execute("CREATE TABLE %s (id, a)" % qn)
                db.execute("CREATE TABLE t (id, a)")
            elif site in ("column_select", "column_where", "column_insert"):
                db.execute("CREATE TABLE t (%s, zz1, %s)" % (qn, "zz2" if N.lower() == "b" else "b"))
            else:
                db.execute("CREATE TABLE t (id, a, b, x)")
                db.execute("CREATE TABLE u (id, a, b, x)")
            cur = db.execute(sql)
            if site in ("term_alias",) and cur.description[0][0] != N:
                res.violate("C07|%s|sqlite|engine-alias" % site, "the engine reports another column name than the alias supplied",
                            name=N, sql=sql, got=cur.description[0][0])
            res.transitions += 1
        except sqlite3.Error as e:
            if not quote_in_name:
                res.violate("C07|%s|sqlite|engine-rejects" % site, "SQLite rejects the statement for this name: %s" % e, name=N, sql=sql)
        finally:
            db.close()
    return res


def describe():
    return {
        "rule": "names = all strings of length <= L over {a,A,\",`,',.,space,[,],e-acute,-} + keywords/mixed case/comment and "
                "placeholder look-alikes; sites = 35 emission sites (tables in every statement kind, schemas, columns in every "
                "clause, table/term/subquery aliases and references to them, index hints, FOR UPDATE OF, CTE definition and "
                "reference, DDL names, set-operation ORDER BY, RETURNING, DISTINCT ON, MySQL upsert alias) x 6 dialects",
        "bound": {"quick": "L = 2 (143 names)", "thorough": "L = 3 (1474 names)"},
        "assumptions": ["identifier lexical grammars of mc/lexer.py (Oracle has no escape for '\"' inside quoted identifiers)",
                        "a site that emits the benign name unquoted is reported once per site"],
    }
