"""C08 — one dialect's conventions govern the whole statement tree.

Bounded-exhaustive: every nesting path of length <= 2 (thorough <= 3) over the embedding constructs (FROM-subquery,
JOIN-subquery, IN-subquery, comparison-subquery, select-list subquery, CTE body, set-operation operand on either
side) x dialect-sensitive leaf x outer dialect class x inner parts built with {the same dialect class, the generic
classes} x {inline, parameterised}.  Oracles: (1) conformance of every token of the rendered tree with the outer
dialect's conventions (identifier quote, placeholder style and numbering, literal forms, GROUP BY alias policy);
(2) for the dialect-neutral leaves the token streams of all dialects are identical after normalising exactly
those conventions.  DDL statements created through a dialect's Query class follow that dialect too.
"""
from __future__ import annotations

import itertools
import json
import re

from mc.common import Result, h64
from mc import fp, prog
from mc.lexer import LexError, lex

PROPERTY = "C08"

T, U = ["t", "t"], ["t", "u"]
ux, uy = ["f", "u", "x"], ["f", "u", "y"]
QUOTE = {"generic": '"', "sqlite": '"', "postgresql": '"', "mssql": '"', "oracle": '"', "mysql": "`"}
PAR = {"generic": "?", "sqlite": "?", "mssql": "?", "oracle": "?", "mysql": "%s", "postgresql": "$"}

CONSTRUCTS = ["from_sub", "join_sub", "in_sub", "notin_sub", "cmp_sub", "sel_sub", "cte", "setop_right", "setop_base", "setop_third", "setop_mid"]


def leaf_prog(leaf, q):
    """innermost query: selects exactly one column aliased k"""
    k = lambda e: ["as", e, "k"]  # noqa
    c = {
        "ident": [["from", U], ["select", [k(ux)]], ["where", ["cmp", ">", uy, ["f", "u", "z"]]]],
        "value": [["from", U], ["select", [k(ux)]], ["where", ["cmp", "=", uy, ["raw", 5]]]],
        "value2": [["from", U], ["select", [k(ux)]], ["where", ["logic", "AND", ["cmp", "=", uy, ["raw", 5]], ["in", ux, [["raw", "a"], ["raw", "b"]]]]]],
        "backslash": [["from", U], ["select", [k(ux)]], ["where", ["cmp", "=", uy, ["raw", "a\\b'c"]]]],
        "inlist5": [["from", U], ["select", [k(ux)]], ["where", ["logic", "AND", ["in", ux, [["raw", 1], ["raw", "a\\b"], ["raw", 3], ["raw", "d"], ["raw", 5]]],
                                                                 ["cmp", "=", ["tuple", [ux, uy, ux, uy]], ["tuple", [["raw", 1], ["raw", 2], ["raw", "c\\"], ["raw", 4]]]]]]],
        "bool": [["from", U], ["select", [["raw", True], k(ux)]]],
        "bool_crit": [["from", U], ["select", [k(ux)]], ["where", ["cmp", "=", uy, ["raw", False]]]],
        "array": [["from", U], ["select", [k(["array", [["raw", 1], ["raw", 2]]])]]],
        "interval": [["from", U], ["select", [k(["arith", "+", ux, ["interval", {"days": 1, "hours": 2}]])]]],
        # constants whose text the MySQL builder's own wrapper produces (select list) next to the same constants in criteria
        "time_const": [["from", U], ["select", [k(ux), ["raw", ["$time", "23:59:59.123456"]]]], ["where", ["cmp", "=", uy, ["raw", ["$time", "01:02:03.000004"]]]]],
        "jsondict_unsorted": [["from", U], ["select", [["raw", ["$dict", [["zeta", 1], ["alpha", 2], ["Beta", "x"], ["mid", None]]]], k(ux)]],
                              ["where", ["cmp", "=", uy, ["raw", 5]]]],
        "interval_zero": [["from", U], ["select", [k(["arith", "+", ux, ["interval", {"days": 0}]]), ["arith", "-", uy, ["interval", {}]]]]],
        "interval_kw": [["from", U], ["select", [k(["arith", "+", ux, ["interval", {"days": 1, "hours": 2, "dialect": "MYSQL"}]]),
                                                 ["arith", "-", uy, ["interval", {"hours": 36, "dialect": "POSTGRESQL"}]]]]],
        "json_esc": [["from", U], ["select", [k(ux), ["json", {"$dict": [["s", "q\\r\"t'u"]]}]]],
                     ["where", ["logic", "AND", ["jsonop", "contains", ["f", "u", "j"], {"$dict": [["a", "x\\y\"z'w"], ["b", [1, "v\\"]]]}], ["cmp", "=", uy, ["raw", "p\\"]]]]],
        "json": [["from", U], ["select", [k(ux)]], ["where", ["jsonop", "contains", ["f", "u", "j"], ["$dict", [["a", 1]]]]]],
        "jsondict": [["from", U], ["select", [["raw", {"$dict": [["a", "x\\y\"z'w"], ["b", [1, "q\\"]]]}], k(ux)]]],
        "jsondict_set": [["update", U], ["set", "j", ["raw", {"$dict": [["a", "x\\y\"z'w"]]}]], ["where", ["cmp", "=", uy, ["raw", "a\\b"]]]],
        "orderalias": [["from", U], ["select", [k(["arith", "+", ux, ["raw", 1]])]], ["orderby", [k(["arith", "+", ux, ["raw", 1]])], "desc"]],
        "setop_orderalias": [["from", U], ["select", [k(ux)]], ["union", {"calls": [["from", ["t", "v"]], ["select", [["f", "v", "x"]]]], "q": q}],
                             ["orderby", [k(ux)], "asc"]],
        "ident_backtick": [["from", ["t", "u`v"]], ["select", [k(["f", "u`v", "c`d"])]], ["where", ["cmp", ">", ["f", "u`v", "e``f"], ["raw", 1]]]],
        "interval_reflected": [["from", U], ["select", [k(["arith", "+", ["interval", {"days": 1, "hours": 2}], ux]), ["arith", "-", ["interval", {"hours": 36}], uy]]]],
        "groupalias_other": [["from", U], ["select", [k(["arith", "+", ux, ["raw", 1]])]], ["groupby", [k(uy)]]],
        "groupalias": [["from", U], ["select", [k(["arith", "+", ux, ["raw", 1]])]], ["groupby", [k(["arith", "+", ux, ["raw", 1]])]]],
        "limit": [["from", U], ["select", [k(ux)]], ["orderby", [ux], "asc"], ["limit", 3], ["offset", 1]],
    }[leaf]
    return {"calls": c, "q": q}


def embed(construct, inner, q, level, d=None):
    """wrap inner into an outer query that again selects one column aliased k"""
    s = "s%d" % level
    k = lambda e: ["as", e, "k"]  # noqa
    ta = ["f", "t", "a"]
    c = {
        "from_sub": [["from", ["q", s, inner, s]], ["select", [k(["f", s, "k"])]]],
        "join_sub": [["from", T], ["join", "inner", ["q", s, inner, s], ["on", ["cmp", "=", ["f", "t", "id"], ["f", s, "k"]]]], ["select", [k(ta)]]],
        "in_sub": [["from", T], ["select", [k(ta)]], ["where", ["insub", ta, inner]]],
        "notin_sub": [["from", T], ["select", [k(ta)]], ["where", ["insub", ta, inner, "not"]]],
        "cmp_sub": [["from", T], ["select", [k(ta)]], ["where", ["cmp", "=", ta, ["subq", inner]]]],
        "sel_sub": [["from", T], ["select", [k(["subq", inner])]]],
        "cte": [["with", "c%d" % level, inner], ["from", ["cte", "c%d" % level]], ["select", [k(["f", "c%d" % level, "k"])]]],
        "setop_right": [["from", T], ["select", [k(ta)]], ["union_all", inner]],
        "setop_base": inner["calls"] + [["union", {"calls": [["from", T], ["select", [k(ta)]]], "q": q}]],
        # chains of three whose other operand comes from a class with the *other* operand-wrapping convention: the statement's
        # class decides for every operand
        "setop_third": [["from", T], ["select", [k(ta)]], ["union", {"calls": [["from", ["t", "v"]], ["select", [["f", "v", "x"]]]], "q": _contrast(d)}],
                        ["union_all", inner]],
        "setop_mid": [["from", T], ["select", [k(ta)]], ["union_all", inner],
                      ["union", {"calls": [["from", ["t", "v"]], ["select", [["f", "v", "x"]]]], "q": _contrast(d)}]],
    }[construct]
    return {"calls": c, "q": q}


def _contrast(d):
    return "generic" if d == "mysql" else "mysql"


NEUTRAL = {"time_const", "jsondict_unsorted", "ident", "ident_backtick", "value", "value2", "backslash", "inlist5", "json_esc", "json", "jsondict", "jsondict_set", "orderalias", "setop_orderalias"}
LEAVES = ["time_const", "jsondict_unsorted", "ident", "ident_backtick", "interval_reflected", "groupalias_other", "value", "value2", "backslash", "inlist5", "bool", "bool_crit", "array", "interval", "interval_zero", "interval_kw", "json", "json_esc", "jsondict", "jsondict_set", "groupalias", "orderalias",
          "setop_orderalias", "limit"]


def chunks(tier, seed):
    out = []
    maxlen = 2 if tier == "quick" else 3
    for leaf in LEAVES:
        for n in range(0, maxlen + 1):
            if n <= 1:
                out.append({"leaf": leaf, "n": n, "first": None})
            else:
                for c in CONSTRUCTS:
                    out.append({"leaf": leaf, "n": n, "first": c})
    out.append({"ddl": True})
    return out


def expand(chunk):
    if chunk.get("ddl"):
        for d in fp.CTX:
            for kind in ("create", "create_as", "drop", "create_default"):
                yield {"ddl": kind, "d": d}
            yield {"factory": True, "d": d}
            yield {"dml_tail": True, "d": d}
        return
    n = chunk["n"]
    for path in itertools.product(CONSTRUCTS, repeat=n):
        if n > 1 and path[0] != chunk["first"]:
            continue
        if "setop_base" in path[1:] and False:
            continue
        if chunk["leaf"] == "jsondict_set" and path:
            continue  # an UPDATE is not a subquery
        for inner_cls in ("same", "generic"):
            yield {"leaf": chunk["leaf"], "path": list(path), "inner": inner_cls}


def build_prog(leaf, path, inner_cls, d):
    q_inner = None if inner_cls == "same" else "generic"
    p = leaf_prog(leaf, q_inner if path else None)
    # innermost first: path[-1] embeds the leaf, path[0] is the outermost construct
    for level, c in enumerate(reversed(path)):
        outermost = level == len(path) - 1
        p = embed(c, p, None if outermost else q_inner, level, d)
    p["q"] = None
    return p


def norm_stream(toks, d):
    """decoded token stream with the documented conventions normalised away"""
    out = []
    for t in toks:
        if t.kind == "ID":
            out.append(("ID", t.value))
        elif t.kind == "STR":
            out.append(("STR", t.value))
        elif t.kind == "PAR":
            out.append(("PAR",))
        elif t.kind == "NUM":
            out.append(("NUM", t.value))
        elif t.kind == "WORD":
            out.append(("W", t.value))
        else:
            out.append(("OP", t.text))
    return out


def strip_setop_parens(stream):
    """set operands may or may not be wrapped (MySQL leaves them bare): drop a pair of parentheses around a SELECT only where it
    encloses an operand of a set operation, i.e. stands directly before / after UNION, INTERSECT, EXCEPT, MINUS [ALL]; every
    other pair (scalar subquery, IN, FROM, ...) is part of the statement in all dialects and stays"""
    setw = {("W", "UNION"), ("W", "INTERSECT"), ("W", "EXCEPT"), ("W", "MINUS")}
    n = len(stream)
    match, stack = {}, []
    for i, x in enumerate(stream):
        if x == ("OP", "("):
            stack.append(i)
        elif x == ("OP", ")") and stack:
            match[stack.pop()] = i
    drop = set()
    for i, j in match.items():
        if i + 1 < n and stream[i + 1] in (("W", "SELECT"), ("W", "WITH"), ("OP", "(")):
            before = stream[i - 1] if i > 0 else None
            before2 = stream[i - 2] if i > 1 else None
            after = stream[j + 1] if j + 1 < n else None
            later_operand = before in setw or (before == ("W", "ALL") and before2 in setw)
            first_operand = after in setw and before in (None, ("OP", "("))  # (an IN list / a scalar subquery before UNION is not)
            if later_operand or first_operand:
                drop.add(i)
                drop.add(j)
    return [x for i, x in enumerate(stream) if i not in drop]


def conformance(toks, d, leaf, inner_cls, sql):
    """-> list of (symptom, info)"""
    bad = []
    q = QUOTE[d]
    n_par = 0
    for i, t in enumerate(toks):
        if t.kind == "ID" and t.text[0] != q:
            bad.append(("identifier-quote", t.text))
        if t.kind == "STR" and d == "mysql" and t.text[0] == '"':
            bad.append(("identifier-quote", t.text))  # a double-quoted name is a string literal in MySQL
        if t.kind == "PAR":
            n_par += 1
            if not t.text.startswith(PAR[d]):
                bad.append(("placeholder-style", t.text))
            elif d == "postgresql" and t.value != n_par:
                bad.append(("placeholder-numbering", t.text))
        if t.kind == "WORD" and t.value == "ARRAY" and d != "postgresql":
            bad.append(("array-form", "ARRAY[...] outside PostgreSQL"))
        if t.kind == "OP" and t.text == "[" and d == "postgresql" and leaf == "array":
            prev = toks[i - 1] if i else None
            if not (prev is not None and prev.kind == "WORD" and prev.value == "ARRAY"):
                bad.append(("array-form", "[...] without ARRAY in PostgreSQL"))
        if t.kind == "WORD" and t.value == "INTERVAL":
            nxt = toks[i + 1] if i + 1 < len(toks) else None
            nn = toks[i + 2] if i + 2 < len(toks) else None
            unit_outside = nn is not None and nn.kind == "WORD" and nn.value in ("DAY_HOUR", "DAY", "HOUR")
            if d in ("mysql", "oracle") and not unit_outside:
                bad.append(("interval-form", sql[t.start:t.start + 40]))
            if d == "postgresql" and unit_outside:
                bad.append(("interval-form", sql[t.start:t.start + 40]))
        if leaf == "groupalias" and t.kind == "WORD" and t.value == "GROUP":
            nxt = toks[i + 2] if i + 2 < len(toks) else None
            after = toks[i + 3] if i + 3 < len(toks) else None
            bare_alias = nxt is not None and nxt.kind == "ID" and nxt.value == "k" and not (after is not None and after.kind == "OP" and after.text in ("+", "."))
            if d in ("mssql", "oracle") and bare_alias:
                bad.append(("groupby-alias", "GROUP BY alias in a dialect that forbids it"))
        if leaf == "groupalias_other" and d in ("mssql", "oracle") and t.kind == "WORD" and t.value == "GROUP":
            # the GROUP BY term carries the alias of a select item: where the alias may not be written, the select item's
            # expression stands for it ("x"+1), not the term that merely carries the same alias ("y")
            tail = [x.value for x in toks[i + 2:i + 6] if x.kind == "ID"]
            if "x" not in tail or "y" in tail:
                bad.append(("groupby-alias", "GROUP BY does not use the select expression the alias stands for"))
        if inner_cls == "same" and t.kind == "WORD" and t.value in ("UNION", "INTERSECT", "EXCEPT", "MINUS"):
            j = i + 1
            if j < len(toks) and toks[j].kind == "WORD" and toks[j].value == "ALL":
                j += 1
            wrapped = j < len(toks) and toks[j].kind == "OP" and toks[j].text == "("
            if d == "mysql" and wrapped:
                bad.append(("setop-wrapping", "operand parenthesised in a MySQL statement"))
            if d != "mysql" and not wrapped:
                bad.append(("setop-wrapping", "operand not parenthesised"))
        if leaf in ("bool", "bool_crit") and inner_cls == "same" and d == "sqlite":
            if t.kind == "WORD" and t.value in ("TRUE", "FALSE"):
                bad.append(("boolean-form", t.text))
    return bad


def values_misaligned(inl, par, vals):
    """inline and parameterised token streams walked in parallel: where the parameterised one has a placeholder the inline one has
    the literal of the value at that index of the list.  -> description of the first mismatch, or None (aligned / not comparable)"""
    i = j = k = 0
    while j < len(par):
        p = par[j]
        if p.kind != "PAR":
            if i >= len(inl) or (inl[i].kind, inl[i].value) != (p.kind, p.value):
                return None  # the streams differ structurally (e.g. an array): not comparable token by token
            i += 1
            j += 1
            continue
        if k >= len(vals) or i >= len(inl):
            return None
        v = vals[k]
        k += 1
        j += 1
        neg = False
        if inl[i].kind == "OP" and inl[i].text == "-":
            neg = True
            i += 1
        if i >= len(inl):
            return None
        t = inl[i]
        i += 1
        if isinstance(v, bool) or v is None or not isinstance(v, (int, float, str)):
            continue
        if isinstance(v, str):
            if t.kind != "STR":
                return None
            if t.value != v:
                return "placeholder %d stands where the inline text has %r but the value list has %r" % (k, t.value, v)
        else:
            if t.kind != "NUM":
                return None
            got = -t.value if neg else t.value
            if got != v:
                return "placeholder %d stands where the inline text has %r but the value list has %r" % (k, got, v)
    return None


def run_ddl(case, res):
    from pypika_tortoise import Table
    from pypika_tortoise.queries import Column

    d = case["d"]
    Q = fp.QCLS[d]
    lexd = "sqlite" if d == "generic" else d
    kind = case["ddl"]
    if kind == "create":
        o = Q.create_table(Table("tbl")).columns(Column("c1", "INT"), "c2").unique("c1").primary_key("c2")
    elif kind == "create_default":
        o = Q.create_table(Table("tbl")).columns(Column("c1", "VARCHAR(9)", default="a\\b"))
    elif kind == "create_as":
        o = Q.create_table(Table("tbl")).as_select(Q.from_(Table("src")).select("c1"))
    else:
        o = Q.drop_table(Table("tbl")).if_exists()
    res.nontrivial = 1
    # statements of the same kinds started through the other dialect classes in the meantime: this one keeps its dialect
    for name2, Q2 in sorted(fp.QCLS.items(), key=lambda kv: kv[0] == d):
        if name2 != d:
            Q2.create_table(Table("zz_else")).columns("a")
            Q2.create_table(Table("zz_else2")).as_select(Q2.from_(Table("src")).select("c1"))
            Q2.drop_table(Table("zz_else"))
            Q2.from_(Table("zz_else")).select("a")
    for how in ("str", "get_sql_default"):
        try:
            sql = str(o) if how == "str" else (o.get_sql(None) if kind.startswith("create") else o.get_sql())
        except Exception as e:
            res.violate("C08|ddl|raises|%s" % type(e).__name__, "DDL rendering raised", dialect=d, kind=kind)
            continue
        res.transitions += 1
        res.outcomes.append(h64(sql))
        try:
            toks = lex(sql, lexd)
        except LexError as e:
            res.violate("C08|ddl|unlexable|%s" % d, "DDL does not lex in its dialect", dialect=d, sql=sql)
            continue
        for sym, info in conformance(toks, d, "ddl", "same", sql):
            res.violate("C08|ddl|%s|%s" % (sym, kind.split("_")[0]), "DDL built through %sQuery does not follow its dialect: %s %s" % (d, sym, info),
                        dialect=d, sql=sql, how=how)
            break
        if kind == "create_default" and d == "mysql":
            strs = [t for t in toks if t.kind == "STR"]
            if not strs or strs[0].value != "a\\b":
                res.violate("C08|ddl|string-escape|create", "DEFAULT string is not escaped for MySQL", dialect=d, sql=sql)


def run_dml_tail(case, res):
    """DML statements with a distinct constant in every clause (SET, VALUES, WHERE, ON CONFLICT .. WHERE / DO UPDATE .. WHERE,
    RETURNING, UPDATE..FROM / JOIN .. ON): under a parameterizer every one of them is written as the
    dialect's placeholder - the clause reached last (rendered by the dialect's own override) follows the same convention as the
    statement's head - and the value list carries them in placeholder order"""
    from pypika_tortoise import Table

    d = case["d"]
    Q = fp.QCLS[d]
    lexd = "sqlite" if d == "generic" else d
    t, u = Table("t"), Table("u")
    res.nontrivial = 1
    res.states.append(h64(json.dumps(["dml_tail", d])))
    stmts = {
        "update": lambda: Q.update(t).set(t.a, 101).set(t.b, t.b + 102).where(t.c == 103).where(t.d.isin([104, 105])),
        "update_from": lambda: Q.update(t).from_(u).set(t.a, u.x + 101).where(t.id == u.tid).where(u.y > 102),
        "update_join": lambda: Q.update(t).join(u).on((t.id == u.tid) & (u.y > 101)).set(t.a, 102).where(t.c == 103),
        "insert": lambda: Q.into(t).columns("a", "b").insert(101, 102).insert(103, 104),
        "insert_select": lambda: Q.into(t).columns("a").from_(u).select(u.x + 101).where(u.y == 102),
        "delete": lambda: Q.from_(t).delete().where(t.c == 101).where(t.d.between(102, 103)),
        "upsert": lambda: Q.into(t).columns("id", "a").insert(101, 102).on_conflict("id").do_update("a", 103),
        "upsert_wheres": lambda: Q.into(t).columns("id", "a").insert(101, 102).on_conflict("id").where(t.a > 103).do_update("a", 104).where(t.a < 105),
    }
    if d == "postgresql":
        stmts.update({
            "update_returning": lambda: Q.update(t).set(t.a, 101).where(t.c == 102).returning(t.a + 103, t.id),
            "insert_returning": lambda: Q.into(t).columns("a").insert(101).returning(t.a * 102, (t.a - 103).as_("m")),
            "delete_returning": lambda: Q.from_(t).delete().where(t.c == 101).returning(t.a + 102),
            "upsert_returning": lambda: Q.into(t).columns("id", "a").insert(101, 102).on_conflict("id").do_update("a", 103).returning(t.a + 104),
            "update_from_returning": lambda: Q.update(t).from_(u).set(t.a, u.x + 101).where(t.id == u.tid).returning(t.a + 102, u.x * 103),
        })
    for name, mk in stmts.items():
        try:
            o = mk()
            inl, _ = prog.render(o, d)
            par, vals = prog.render(o, d, param=True)
            ti, tp = lex(inl, lexd), lex(par, lexd)
        except Exception as e:
            res.violate("C08|dml_tail|%s|raises|%s" % (name, type(e).__name__), "a DML statement of the menu raised", dialect=d, error=str(e)[:200])
            continue
        res.transitions += 2
        res.outcomes.append(h64(par))
        marks = [tk.value for tk in ti if tk.kind == "NUM" and 101 <= tk.value <= 105]
        left = [(tk.value, clause_word(tp, i)) for i, tk in enumerate(tp) if tk.kind == "NUM" and 101 <= tk.value <= 105]
        n_par = sum(1 for tk in tp if tk.kind == "PAR")
        if not marks:
            res.violate("C08|dml_tail|%s|no-constants" % name, "the inline statement carries none of its constants", dialect=d, sql=inl)
        elif left and n_par:
            res.violate("C08|dml_tail|placeholder-style|%s|%s" % (d, left[0][1]), "under a parameterizer part of the statement writes its constants inline "
                        "while the rest uses placeholders", dialect=d, stmt=name, inline_constants=left, sql=par, values=fp.vrepr(vals))
        elif n_par and [v for v in vals if isinstance(v, int) and not isinstance(v, bool) and 101 <= v <= 105] != marks:
            res.violate("C08|dml_tail|values-order|%s" % d, "the value list does not carry the constants in the order they are written", dialect=d, stmt=name,
                        sql=par, inline=inl, values=fp.vrepr(vals))
        mis = values_misaligned(ti, tp, list(vals or []))
        if mis:
            res.violate("C08|dml_tail|values-misaligned|%s" % d, "the parameter list does not follow the order of the placeholders: " + mis, dialect=d, stmt=name, sql=par,
                        values=fp.vrepr(vals))


def clause_word(toks, idx):
    for tk in reversed(toks[:idx]):
        if tk.kind == "WORD" and tk.value in ("SET", "VALUES", "WHERE", "RETURNING", "ON", "UPDATE", "SELECT", "CONFLICT", "KEY", "FROM", "IN", "BETWEEN"):
            return tk.value
    return "START"


def run_factory(case, res):
    """tables handed out by <Dialect>Query.Table / .Tables carry the dialect class: statements started from any of them
    (select / update / insert on the table) render exactly like the same statement started from the dialect class"""
    from pypika_tortoise import Table
    from pypika_tortoise.queries import make_tables

    d = case["d"]
    Q = fp.QCLS[d]
    made = {"Table": [Q.Table("fa")], "Tables1": Q.Tables("fa"), "Tables3": Q.Tables("fa", "fb", ("fc", "calias")),
            "Tables4_schema": Q.Tables("fa", "fb", "fc", "fd", schema="sch"), "make_tables": make_tables("fa", "fb", "fc", query_cls=Q)}
    res.nontrivial = 1
    for how, tabs in made.items():
        for i, t in enumerate(tabs):
            ref_t = Table(t._table_name, schema=t._schema, alias=t.alias)
            pairs = [("select", lambda x: x.select(x.c1, "c2").where(x.c3 == "v\\'").limit(2), lambda x: Q.from_(x).select(x.c1, "c2").where(x.c3 == "v\\'").limit(2)),
                     ("update", lambda x: x.update().set("c1", True).where(x.c2 == 1), lambda x: Q.update(x).set("c1", True).where(x.c2 == 1)),
                     ("insert", lambda x: x.insert(1, "s", False), lambda x: Q.into(x).insert(1, "s", False))]
            for name, via_table, via_class in pairs:
                res.transitions += 2
                try:
                    a, b = via_table(t), via_class(ref_t)
                    got = (str(a), a.get_sql(), fp.vrepr(a.get_parameterized_sql()[1]), a.get_parameterized_sql()[0])
                    want = (str(b), b.get_sql(), fp.vrepr(b.get_parameterized_sql()[1]), b.get_parameterized_sql()[0])
                except Exception as e:
                    res.violate("C08|factory|raises|%s" % type(e).__name__, "statement from a factory-made table raised", dialect=d, how=how, index=i, stmt=name)
                    continue
                res.outcomes.append(h64(repr(got)))
                if got != want:
                    res.violate("C08|factory|%s|%s" % (re.sub(r"[0-9].*$", "", how), "first" if i == 0 else "later"),
                                "a statement started from table %d of %s.%s does not render like the one started from the %s query class" % (i, Q.__name__, how, d),
                                dialect=d, how=how, index=i, stmt=name, got=got[0], want=want[0], got_param=got[3], want_param=want[3])


def run_case(case):
    res = Result()
    if "ddl" in case:
        run_ddl(case, res)
        return res
    if "factory" in case:
        run_factory(case, res)
        return res
    if "dml_tail" in case:
        run_dml_tail(case, res)
        return res
    leaf, path, inner_cls = case["leaf"], case["path"], case["inner"]
    res.states.append(h64(json.dumps([leaf, path, inner_cls])))
    streams = {}
    setop_rejected, rendered_for = {}, []
    for d in fp.CTX:
        lexd = "sqlite" if d == "generic" else d
        if inner_cls == "generic" and d == "generic":
            continue
        rendered_for.append(d)
        p = build_prog(leaf, path, inner_cls, d)
        try:
            o = prog.build(p, dialect=d)
        except Exception as e:
            # every program of the menu is valid for every dialect class (none is rejected on the reference tree)
            res.nontrivial = 1
            res.violate("C08|build-raises|%s|%s" % (d, type(e).__name__), "a valid program of the menu was rejected while it was built",
                        dialect=d, leaf=leaf, path=path, inner=inner_cls, error=str(e)[:200])
            continue
        res.nontrivial = 1
        # render history: the same statement object rendered for another dialect first
        try:
            o2 = prog.build(p, dialect=d)
            other = "generic" if d in ("mysql", "oracle") else "mysql"
            try:
                o2.get_sql(fp.CTX[other])
            except Exception:
                pass
            a_, b_ = prog.render(o2, d)[0], prog.render(prog.build(p, dialect=d), d)[0]
            res.transitions += 2
            if a_ != b_:
                res.violate("C08|render-history|%s|%s" % (d, leaf), "the statement renders differently after the same object was rendered "
                            "for another dialect (%s)" % other, dialect=d, leaf=leaf, path=path, inner=inner_cls, fresh=b_, after=a_)
        except Exception:
            pass
        inline_toks = None
        for param in (False, True):
            res.transitions += 1
            try:
                sql, vals = prog.render(o, d, param=param)
            except Exception as e:
                if type(e).__name__ == "SetOperationException":
                    setop_rejected[d] = str(e)[:120]
                    continue  # operands of different arity (two-column leaf inside a set operation): rightly rejected - by every dialect
                res.violate("C08|raises|%s|%s" % (d, type(e).__name__), "rendering raised", leaf=leaf, path=path, inner=inner_cls, error=str(e)[:200])
                continue
            res.outcomes.append(h64(sql))
            try:
                toks = lex(sql, lexd)
            except LexError as e:
                res.violate("C08|unlexable|%s|%s|%s" % (d, path[-1] if path else "top", inner_cls), "statement does not lex in its dialect",
                            dialect=d, leaf=leaf, path=path, inner=inner_cls, sql=sql, error=str(e))
                continue
            seen = set()
            for sym, info in conformance(toks, d, leaf, inner_cls, sql):
                if sym in seen:
                    continue
                seen.add(sym)
                where = leaf if sym == "boolean-form" else innermost(path)
                res.violate("C08|%s|%s|%s|%s" % (sym, d, where, inner_cls),
                            "%s of the %s dialect not followed inside the statement tree: %s" % (sym, d, info),
                            dialect=d, leaf=leaf, path=path, inner=inner_cls, sql=sql, param=param)
            if param and vals is not None:
                n_par = sum(1 for t in toks if t.kind == "PAR")
                if n_par != len(vals):
                    res.violate("C08|placeholder-count|%s|%s|%s" % (d, innermost(path), inner_cls), "placeholders and values differ in number",
                                dialect=d, leaf=leaf, path=path, sql=sql, values=fp.vrepr(vals))
            if not param:
                inline_toks = toks
            elif vals is not None and inline_toks is not None:
                mis = values_misaligned(inline_toks, toks, list(vals))
                if mis:
                    res.violate("C08|values-misaligned|%s|%s" % (d, leaf), "the parameter list does not follow the order of the placeholders: " + mis,
                                dialect=d, leaf=leaf, path=path, inner=inner_cls, sql=sql, values=fp.vrepr(vals))
            if leaf in NEUTRAL:
                streams[(d, param)] = strip_setop_parens(norm_stream(toks, d))
    if setop_rejected and set(setop_rejected) != set(rendered_for):
        for d in sorted(setop_rejected):
            res.violate("C08|raises|%s|SetOperationException" % d, "the program renders under other dialect classes but is rejected under this one",
                        dialect=d, leaf=leaf, path=path, inner=inner_cls, error=setop_rejected[d], renders_under=sorted(set(rendered_for) - set(setop_rejected)))
    # (2) cross-dialect identity for the neutral subset
    if leaf in NEUTRAL:
        for param in (False, True):
            ref_d = "generic" if ("generic", param) in streams else "sqlite"
            ref = streams.get((ref_d, param))
            if ref is None:
                continue
            for d in fp.CTX:
                s = streams.get((d, param))
                if s is None or d == ref_d:
                    continue
                a, b = s, ref
                if leaf == "json" and d != "postgresql":
                    # '?'-style placeholders and the PostgreSQL JSON operators share characters: compare without them
                    pass
                if a != b:
                    i = next((i for i, (x, y) in enumerate(zip(a, b)) if x != y), min(len(a), len(b)))
                    res.violate("C08|cross-dialect|%s|%s|%s" % (d, innermost(path), inner_cls),
                                "token stream under %s differs from the %s one beyond the documented conventions" % (d, ref_d),
                                leaf=leaf, path=path, inner=inner_cls, param=param, here=a[max(0, i - 2):i + 3], there=b[max(0, i - 2):i + 3])
    return res


def innermost(path):
    return path[-1] if path else "top"


def describe():
    return {
        "rule": "programs = nesting paths (sequences of 9 embedding constructs, length <= L) x 11 dialect-sensitive leaves x inner "
                "parts built with {same dialect class, generic classes}; each rendered by all six dialect classes inline and "
                "parameterised; + DDL (CREATE TABLE, CREATE .. AS, DROP) created through each dialect's Query class",
        "bound": {"quick": "L = 2 (91 paths)", "thorough": "L = 3 (820 paths)"},
        "assumptions": ["conventions checked: identifier quote, placeholder style/numbering/count, ARRAY form, INTERVAL quoting form, "
                        "GROUP BY alias policy (SQL Server, Oracle), SQLite booleans for values wrapped by the SQLite builder, MySQL "
                        "backslash escaping (via decoding)", "set-operand wrapping is normalised (either form accepted)",
                        "generic-built values keep the generic boolean form true/false (the wrapper class is chosen where the value is wrapped)"],
    }
