"""C09 — LIMIT/OFFSET render as the dialect's row-limiting clause, values in the right slots.

Explicit-state exploration: all call sequences of length <= 3 over {limit, offset, slice, fetch_next, top} with
values in {0,3,7}, reference model "last writer wins per slot", x with/without ORDER BY x position {top level,
FROM-subquery, set-operation operand, the set operation itself} x six dialects x {inline, parameterised}.  The
statement tail is matched against the dialect's reference grammar of the row-limiting clause; SQLite executes.
"""
from __future__ import annotations

import itertools
import json
import sqlite3

from mc.common import Result, h64
from mc import fp, prog
from mc.lexer import LexError, lex

PROPERTY = "C09"

T = ["t", "t"]
fa = ["f", "t", "a"]
NUMS = [0, 3, 7]


def alphabet(d):
    ops = []
    for n in NUMS:
        ops.append(["limit", n])
        ops.append(["offset", n])
    ops += [["slice", 3, 7], ["slice", None, 3], ["slice", 7, None], ["slice", 0, 0], ["slice", 7, 3], ["slice", 0, None]]  # q[a:b] = offset a, limit b (b < a is a valid page)
    ops += [["limit", ["lit", 4]], ["offset", ["lit", 5]]]  # the value given as a wrapped constant (a Term) instead of an int
    if d == "mssql":
        ops += [["fetch_next", 3], ["fetch_next", 0], ["top", 7]]
    return ops


def _v(x):
    return x[1] if isinstance(x, list) else x


def model(seq):
    """reference model of the builder state: last writer wins per slot"""
    lim = off = top = None
    for c in seq:
        if c[0] in ("limit", "fetch_next"):
            lim = _v(c[1])
        elif c[0] == "offset":
            off = _v(c[1])
        elif c[0] == "slice":
            if c[1] is not None:
                off = c[1]
            if c[2] is not None:
                lim = c[2]
        elif c[0] == "top":
            top = c[1]
    return lim, off, top


def chunks(tier, seed):
    out = []
    for d in fp.CTX:
        for pos in ("top", "cte_top", "setop_twice_operand", "from_sub", "join_sub", "in_sub", "setop_operand", "setop_base_operand", "setop_chain_operand", "setop_chain_operand_union", "setop_self",
                    "setop_self_ordered_operand", "setop_self_rechained_union", "setop_self_rechained_union_all", "setop_self_rechained_intersect",
                    "setop_self_rechained_except_of", "setop_self_rechained_minus"):
            for order in (False, True):
                out.append({"d": d, "pos": pos, "order": order, "depth": 2 if tier == "quick" else 3})
    return out


def expand(chunk):
    d = chunk["d"]
    ops = alphabet(d)
    if chunk["pos"].startswith("setop_self") or chunk["pos"].startswith("setop_chain_operand") or chunk["pos"] == "setop_twice_operand":
        ops = [o for o in ops if o[0] in ("limit", "offset")]
    seen = set()
    for k in range(0, chunk["depth"] + 1):
        for seq in itertools.product(ops, repeat=k):
            # canonical representative per (model state, multiset irrelevant): keep all sequences (histories), the
            # model says what they must mean
            yield {"d": d, "pos": chunk["pos"], "order": chunk["order"], "seq": [list(s) for s in seq]}


# ---- reference grammar of the row-limiting clause --------------------------------------------------------------


def top_level(toks):
    """tokens at bracket depth 0 (nested parenthesised groups collapsed into one ('GRP') marker)"""
    out, depth = [], 0
    for t in toks:
        if t.kind == "OP" and t.text == "(":
            if depth == 0:
                out.append(("GRP", "(", None))
            depth += 1
            continue
        if t.kind == "OP" and t.text == ")":
            depth -= 1
            continue
        if depth == 0:
            out.append((t.kind, t.value if t.kind != "OP" else t.text, t))
    return out


def paren_group_after(toks, word):
    """token span of the first parenthesised group that follows keyword `word` at depth 0"""
    depth = 0
    for i, t in enumerate(toks):
        if t.kind == "OP" and t.text == "(":
            depth += 1
        elif t.kind == "OP" and t.text == ")":
            depth -= 1
        elif depth == 0 and t.kind == "WORD" and t.value == word:
            if i + 1 < len(toks) and toks[i + 1].kind == "OP" and toks[i + 1].text == "(":
                j, dd = i + 1, 0
                while j < len(toks):
                    if toks[j].kind == "OP" and toks[j].text == "(":
                        dd += 1
                    elif toks[j].kind == "OP" and toks[j].text == ")":
                        dd -= 1
                        if dd == 0:
                            return toks[i + 2:j]
                    j += 1
    return None


def tail_of(tl):
    """(has_order_by, tail items) — tail = from the first LIMIT/OFFSET/FETCH keyword at depth 0.
    has_order_by is "dup" when ORDER BY occurs more than once at depth 0 (the statement is then not grammatical)."""
    # for a set operation with unwrapped operands only the part after the last set operator belongs to it
    last_op = max([i for i, (k, v, _) in enumerate(tl) if k == "WORD" and v in ("UNION", "INTERSECT", "EXCEPT", "MINUS")] or [-1])
    n_order = sum(1 for k, v, _ in tl[last_op + 1:] if k == "WORD" and v == "ORDER")
    has_order = "dup" if n_order > 1 else n_order == 1
    for i, (k, v, _) in enumerate(tl):
        if k == "WORD" and v in ("LIMIT", "OFFSET", "FETCH"):
            tail = tl[i:]
            # cut trailing FOR UPDATE / set operator (for unwrapped operands)
            for j, (k2, v2, _) in enumerate(tail):
                if k2 == "WORD" and v2 in ("FOR", "UNION", "INTERSECT", "EXCEPT", "MINUS"):
                    tail = tail[:j]
                    break
            return has_order, tail
    return has_order, []


def slot(item, want, vals, used):
    """item is a NUM token equal to want, or the next placeholder whose list value equals want"""
    k, v, t = item
    if k == "NUM":
        return v == want and vals is None
    if k == "PAR" and vals is not None:
        idx = used[0]
        used[0] += 1
        if t.value is not None and t.value != idx + 1 + used[1]:
            return False
        # (plain data: a builder object in the slot compares "equal" to anything, its == builds a criterion)
        return idx + used[1] < len(vals) and type(vals[idx + used[1]]) is type(want) and vals[idx + used[1]] == want
    return False


def words(tail):
    return [(k, v) for k, v, _ in tail]


def check_tail(d, lim, off, has_order, tail, vals, nprev):
    """-> None or a short symptom string.  nprev = number of values that precede the tail in the list."""
    used = [0, nprev]
    if has_order == "dup":
        return "order-by-twice"
    W = words(tail)
    kw = [v for k, v in W if k == "WORD"]
    if d in ("generic", "sqlite", "mysql", "postgresql"):
        if lim is None and off is None:
            return None if not tail else "unexpected-clause"
        if lim is not None:
            exp_kw = ["LIMIT"] + (["OFFSET"] if off is not None else [])
            if kw != exp_kw:
                return "clause-shape"
            if not slot(tail[1], lim, vals, used):
                return "limit-slot"
            if off is not None and not slot(tail[3], off, vals, used):
                return "offset-slot"
            return None if len(tail) == (2 if off is None else 4) else "clause-shape"
        # offset only
        if d == "postgresql":
            if kw != ["OFFSET"] or len(tail) != 2:
                return "clause-shape"
            return None if slot(tail[1], off, vals, used) else "offset-slot"
        # SQLite / MySQL need a LIMIT in front of OFFSET
        if kw != ["LIMIT", "OFFSET"]:
            return "offset-without-limit"
        return None if slot(tail[-1], off, vals, used) else "offset-slot"
    if d == "mssql":
        if lim is None and not off:  # offset 0 / absent without limit: nothing required
            if not tail:
                return None
        if lim is None and off is None:
            return None if not tail else "unexpected-clause"
        exp_kw = ["OFFSET", "ROWS"] + (["FETCH", "NEXT", "ROWS", "ONLY"] if lim is not None else [])
        if kw != exp_kw:
            return "clause-shape"
        if not has_order:
            return "missing-order-by"
        o = tail[1]
        if off is None:
            if not (o[0] == "NUM" and o[1] == 0):
                return "offset-slot"
        elif not slot(o, off, vals, used):
            return "offset-slot"
        if lim is not None and not slot(tail[5], lim, vals, used):
            return "limit-slot"
        return None
    if d == "oracle":
        exp_kw = (["OFFSET", "ROWS"] if off is not None else []) + (["FETCH", "NEXT", "ROWS", "ONLY"] if lim is not None else [])
        if kw != exp_kw:
            return "clause-shape" if sorted(kw) != sorted(exp_kw) else "clause-order"
        i = 0
        if off is not None:
            if not slot(tail[1], off, vals, used):
                return "offset-slot"
            i = 3
        if lim is not None and not slot(tail[i + 2], lim, vals, used):
            return "limit-slot"
        return None
    return "unknown-dialect"


_db = None


def _sqlite():
    global _db
    if _db is None:
        _db = sqlite3.connect(":memory:")
        _db.execute("CREATE TABLE t(id INTEGER, a, b)")
        _db.executemany("INSERT INTO t VALUES (?,?,?)", [(i, i * 10, i % 3) for i in range(10)])
    return _db


def build_case(d, pos, order, seq):
    inner_calls = [["from", T], ["select", [fa]]]
    if order:
        inner_calls.append(["orderby", [fa], "asc"])
    if pos.startswith("setop_self"):
        first = [["from", T], ["select", [fa]]] + ([["orderby", [fa], "desc"]] if pos.endswith("ordered_operand") else [])
        calls = first + [["union_all", {"calls": [["from", T], ["select", [["f", "t", "b"]]]]}]]
        if order:
            calls.append(["orderby", [fa], "asc"])
        if "_rechained_" in pos:
            # a third operand is chained on after the first row-limiting call (and after ORDER BY): what the set operation was told
            # before stays in force
            extra = [[pos.split("_rechained_")[1], {"calls": [["from", T], ["select", [["f", "t", "id"]]]]}]]
            return {"calls": calls + seq[:1] + extra + seq[1:]}
        return {"calls": calls + seq}
    inner = {"calls": inner_calls + seq}
    if pos == "top":
        return inner
    if pos == "cte_top":
        # the statement starts with its CTE (the dialect class's with_() starts it); the row-limiting calls are the statement's own
        return {"calls": [["with", "c1", {"calls": [["from", ["t", "v"]], ["select", [["f", "v", "id"]]]]}]] + inner["calls"]}
    if pos == "setop_twice_operand":
        # the paginated query is an operand twice (one object in shared mode)
        return {"calls": [["from", T], ["select", [["f", "t", "b"]]], ["union_all", inner], ["union", inner]]}
    if pos == "from_sub":
        return {"calls": [["from", ["q", "s", inner, "s"]], ["select", [["f", "s", "a"]]]]}
    if pos == "join_sub":
        # values before (select list), inside the ON criterion and after (WHERE) the paginated subquery
        return {"calls": [["from", T], ["join", "inner", ["q", "s", inner, "s"],
                                        ["on", ["logic", "AND", ["cmp", "=", ["f", "t", "id"], ["f", "s", "a"]], ["cmp", ">", ["f", "s", "a"], ["raw", 7001]]]]],
                          ["select", [["arith", "+", ["f", "s", "a"], ["raw", 9001]]]], ["where", ["cmp", "<", ["f", "t", "b"], ["raw", 8001]]]]}
    if pos == "in_sub":
        return {"calls": [["from", T], ["select", [["arith", "+", ["f", "t", "b"], ["raw", 9001]]]],
                          ["where", ["logic", "AND", ["insub", ["f", "t", "a"], inner], ["cmp", "<", ["f", "t", "b"], ["raw", 8001]]]]]}
    if pos == "setop_operand":
        return {"calls": [["from", T], ["select", [["f", "t", "b"]]], ["union_all", inner]]}
    if pos == "setop_base_operand":
        # the paginated query is the FIRST operand; the set operation itself carries no limit / offset
        return {"calls": inner["calls"] + [["union_all", {"calls": [["from", T], ["select", [["f", "t", "b"]]]]}]]}
    if pos.startswith("setop_chain_operand"):
        # the paginated thing is itself a set operation and is handed to the second call of a chain of the same operator
        op = "union" if pos.endswith("_union") else "union_all"
        nested = {"calls": [["from", T], ["select", [fa]], [op, {"calls": [["from", T], ["select", [["f", "t", "id"]]]]}]]
                  + ([["orderby", [fa], "asc"]] if order else []) + seq}
        return {"calls": [["from", T], ["select", [["f", "t", "b"]]], [op, {"calls": [["from", T], ["select", [["f", "t", "b"]]]]}], [op, nested]]}
    raise ValueError(pos)


def run_case(case):
    res = Result()
    d, pos, order, seq = case["d"], case["pos"], case["order"], case["seq"]
    lim, off, top = model(seq)
    p = build_case(d, pos, order, seq)
    try:
        o = prog.build(p, dialect=d)
    except Exception as e:
        res.violate("C09|%s|build-raises|%s" % (d, type(e).__name__), "building the program raised", program=p, error=str(e))
        return res
    res.nontrivial = 1 if seq else 0
    res.states.append(h64(repr((d, pos, order, lim, off, top))))
    sd = prog.shared_objects_diff(p, d)
    res.transitions += 6
    if sd is not None:
        res.violate("C09|%s|shared-objects" % d, "the statement (or its parameter list) changes when equal operands / expressions are one shared object",
                    program=p, **sd)
        return res
    if pos == "setop_twice_operand":
        return res  # (the slots of each occurrence are covered by setop_operand; here only sharing is compared)
    lexd = "sqlite" if d == "generic" else d
    first_render = {}
    for param in (False, True, False, True):
        res.transitions += 1
        try:
            sql, vals = prog.render(o, d, param=param)
        except Exception as e:
            res.violate("C09|%s|render-raises|%s" % (d, type(e).__name__), "rendering raised", program=p, error=str(e))
            return res
        if param in first_render:
            # the statement is rendered a second time (inline, parameterised, inline, parameterised): the row-limiting clause
            # and its values must be where they were
            if (sql, fp.vrepr(vals)) != first_render[param]:
                res.violate("C09|%s|%s|second-render-differs" % (d, "setop" if pos.startswith("setop_self") else "query"),
                            "the row-limiting clause / the value slots change when the same statement is rendered again",
                            dialect=d, position=pos, calls=seq, first=first_render[param][0], second=sql, values=fp.vrepr(vals))
                return res
            continue
        first_render[param] = (sql, fp.vrepr(vals))
        res.outcomes.append(h64(sql))
        try:
            toks = lex(sql, lexd)
        except LexError as e:
            res.violate("C09|%s|unlexable" % d, "SQL does not lex", program=p, sql=sql, error=str(e))
            return res
        if pos in ("top", "cte_top") or pos.startswith("setop_self"):
            span = toks
        elif pos == "from_sub":
            span = paren_group_after(toks, "FROM")
        elif pos == "setop_base_operand":
            # the first parenthesised group (MySQL renders operands bare: everything before UNION); nothing of the row-limiting
            # clause may follow the last operand
            if toks and toks[0].kind == "OP" and toks[0].text == "(":
                depth = 0
                for j_, t_ in enumerate(toks):
                    if t_.kind == "OP" and t_.text == "(":
                        depth += 1
                    elif t_.kind == "OP" and t_.text == ")":
                        depth -= 1
                        if depth == 0:
                            break
                span = toks[1:j_]
                rest = toks[j_ + 1:]
                depth, leak = 0, None
                for t_ in rest:
                    if t_.kind == "OP" and t_.text == "(":
                        depth += 1
                    elif t_.kind == "OP" and t_.text == ")":
                        depth -= 1
                    elif depth == 0 and t_.kind == "WORD" and t_.value in ("LIMIT", "OFFSET", "FETCH"):
                        leak = t_.value
                if leak:
                    res.violate("C09|%s|setop|operand-limit-leaks" % d, "the row-limiting clause of the first operand is repeated for the whole set operation (%s)" % leak,
                                dialect=d, position=pos, calls=seq, sql=sql)
                    return res
            else:
                idx = next((i_ for i_, t_ in enumerate(toks) if t_.kind == "WORD" and t_.value == "UNION"), len(toks))
                span = toks[:idx]
        elif pos == "join_sub":
            span = paren_group_after(toks, "JOIN")
        elif pos == "in_sub":
            span = paren_group_after(toks, "IN")
        elif pos.startswith("setop_chain_operand"):
            # the last operand: the parenthesised group after the last top-level UNION [ALL] (MySQL: the rest of the statement)
            depth, last = 0, None
            for i_, t_ in enumerate(toks):
                if t_.kind == "OP" and t_.text == "(":
                    depth += 1
                elif t_.kind == "OP" and t_.text == ")":
                    depth -= 1
                elif depth == 0 and t_.kind == "WORD" and t_.value == "UNION":
                    last = i_ + 1 if (i_ + 1 < len(toks) and toks[i_ + 1].kind == "WORD" and toks[i_ + 1].value == "ALL") else i_
            if last is None:
                span = None
            elif last + 1 < len(toks) and toks[last + 1].text == "(":
                depth, j_ = 0, last + 1
                for j_ in range(last + 1, len(toks)):
                    if toks[j_].text == "(" and toks[j_].kind == "OP":
                        depth += 1
                    elif toks[j_].text == ")" and toks[j_].kind == "OP":
                        depth -= 1
                        if depth == 0:
                            break
                span = toks[last + 2:j_]
            else:
                span = toks[last + 1:]
        else:
            span = paren_group_after(toks, "ALL")
            if span is None:  # unwrapped operand (MySQL): everything after UNION ALL
                idx = max(i for i, t in enumerate(toks) if t.kind == "WORD" and t.value == "ALL")
                span = toks[idx + 1:]
        if span is None:
            res.violate("C09|%s|%s|no-span" % (d, pos), "cannot locate the paginated query in the statement", sql=sql, program=p)
            return res
        tl = top_level(span)
        has_order, tail = tail_of(tl)
        # values that precede the tail in the parameter list
        nprev = 0
        if param and tail:
            first = tail[0][2]
            nprev = sum(1 for t in toks if t.kind == "PAR" and t.start < first.start)
        dd = "sqlite" if d == "generic" else d
        sym = check_tail(dd, lim, off, has_order, tail, vals if param else None, nprev)
        if sym:
            res.violate("C09|%s|%s|%s" % (d, "setop" if pos.startswith("setop_self") else "query", sym),
                        "row-limiting clause is not the dialect's grammar / values not in their slots (%s)" % sym,
                        dialect=d, position=pos, calls=seq, model={"limit": lim, "offset": off}, sql=sql,
                        values=fp.vrepr(vals) if vals is not None else None, param=param)
            break
        if d == "mssql" and top is not None:
            stl = words(tl)
            ok = any(stl[i][1] == "TOP" for i in range(len(stl)))
            if not ok:
                res.violate("C09|mssql|query|top-missing", "TOP (n) missing", sql=sql, calls=seq)
    # SQLite semantics: skip m rows then return at most n
    if d == "sqlite" and pos == "top" and order:
        sql, _ = prog.render(o, d)
        try:
            rows = [r[0] for r in _sqlite().execute(sql).fetchall()]
            allrows = [i * 10 for i in range(10)]
            m = off or 0
            exp = allrows[m:] if lim is None else allrows[m:m + lim]
            res.transitions += 1
            if rows != exp:
                res.violate("C09|sqlite|query|rows", "SQLite returns other rows than rows[m:m+n]", sql=sql, calls=seq, got=rows, expected=exp)
        except sqlite3.Error as e:
            res.violate("C09|sqlite|query|engine-rejects", "SQLite rejects the statement: %s" % e, sql=sql, calls=seq,
                        model={"limit": lim, "offset": off})
    return res


def describe():
    return {
        "rule": "histories = all sequences of length <= depth over {limit,offset}x{0,3,7}, four slice forms, "
                "fetch_next/top (SQL Server); reference model = last writer wins per slot; x ORDER BY x 4 positions x 6 "
                "dialects x {inline, parameterised}; non-trivial = non-empty sequence",
        "bound": {"quick": "sequences of length <= 2", "thorough": "sequences of length <= 3"},
        "assumptions": ["row-limiting grammars per dialect as coded in check_tail (SQLite/MySQL need LIMIT before OFFSET, "
                        "PostgreSQL allows OFFSET alone, SQL Server OFFSET..ROWS FETCH NEXT after ORDER BY, Oracle "
                        "OFFSET before FETCH)",
                        "Python-slice arithmetic is not demanded: q[a:b] means offset a, limit b as documented"],
    }
