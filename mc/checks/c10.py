"""C10 — a subquery renders the same wherever it is embedded.

Product of inner-query menus (aliased terms in WHERE / GROUP BY / HAVING / ORDER BY / ON, nesting, set operations,
values) x embedding positions x six dialects x {inline, parameterised}.  Metamorphic oracle: the text emitted for
the inner query inside the outer statement must be exactly its stand-alone rendering in the same dialect
(placeholders renumbered), parenthesised where the position requires, followed by its alias only where the
position defines one.
"""
from __future__ import annotations

import itertools
import json
import re

from mc.common import Result, h64
from mc import fp, prog
from mc.lexer import LexError, lex

from pypika_tortoise import AliasedQuery, Case, Query, Table
from pypika_tortoise import functions as FN
from pypika_tortoise.queries import QueryBuilder

PROPERTY = "C10"

U, V = ["t", "u"], ["t", "v"]
ux, uy, uid = ["f", "u", "x"], ["f", "u", "y"], ["f", "u", "id"]


def raw(v):
    return ["raw", v]


def A(e, n):
    return ["as", e, n]


def inner_programs(tier):
    sel = [[ux], [A(ux, "k")], [A(["arith", "+", ux, raw(1)], "k"), A(["agg", "COUNT", uy], "n")]]
    where = [None, ["cmp", "=", A(ux, "wx"), raw(1)], ["cmp", ">", A(["arith", "+", ux, raw(1)], "w1"), raw(2)],
             ["logic", "OR", ["cmp", "=", uy, raw("s")], ["logic", "AND", ["cmp", "=", ux, raw(1)], ["cmp", "<", uy, raw(5)]]],
             ["in", A(uy, "wy"), [raw(1), raw(2)]],
             ["insub", ux, {"calls": [["from", V], ["select", [["f", "v", "id"]]], ["where", ["cmp", "=", A(["f", "v", "x"], "vx"), raw(3)]]]}]]
    group = [None, [A(ux, "k")], [A(uy, "gy")], [A(["arith", "+", ux, raw(1)], "g1")]]
    having = [None, ["cmp", ">", A(["agg", "COUNT", uy], "hn"), raw(0)]]
    order = [None, [A(ux, "k")], [A(["arith", "+", ux, raw(1)], "o1")]]
    join = [None, ["join", "inner", V, ["on", ["cmp", "=", uid, A(["f", "v", "id"], "jv")]]]]
    frm = [U, ["q", "n1", {"calls": [["from", U], ["select", [ux, uy, uid]], ["where", ["cmp", "=", A(uy, "ny"), raw(7)]], ["orderby", [A(ux, "no")], "asc"]]}, "n1"]]
    lim = [[], [["limit", 2]]]
    if tier == "quick":
        where, group, order = where[:5], group[:3], order[:2]
    for s, w, g, h, o, j, f, l in itertools.product(sel, where, group, having, order, join, frm, lim):
        if h is not None and g is None:
            continue
        if f[0] == "q" and j is not None:
            continue
        calls = [["from", f]]
        if j:
            calls.append(j)
        js = json.dumps
        if f[0] == "q":
            rep = lambda x: json.loads(js(x).replace('["f", "u",', '["f", "n1",'))  # noqa
            s, w, g, h, o = rep(s), rep(w), rep(g), rep(h), rep(o)
        calls.append(["select", s])
        if w:
            calls.append(["where", w])
        if g:
            calls.append(["groupby", g])
        if h:
            calls.append(["having", h])
        if o:
            calls.append(["orderby", o, "desc"])
        calls += l
        yield {"calls": calls}
    # set operations as inner queries
    a = {"calls": [["from", U], ["select", [A(ux, "k")]], ["where", ["cmp", "=", A(uy, "wy"), raw(1)]]]}
    b = {"calls": [["from", V], ["select", [["f", "v", "x"]]], ["orderby", [A(["f", "v", "x"], "ob")], "asc"], ["limit", 3]]}
    yield {"calls": a["calls"] + [["union", b]]}
    yield {"calls": a["calls"] + [["union_all", b], ["orderby", [A(ux, "k")], "asc"], ["limit", 4]]}
    # operands that carry their own alias, ORDER BY on an aliased term that the select list does not define, and on a
    # plain column (must stay unqualified: it names a result column of the compound select)
    a2 = {"calls": a["calls"] + [["as", "opa"]]}
    b2 = {"calls": b["calls"] + [["as", "opb"]]}
    yield {"calls": a2["calls"] + [["union", b2]]}
    yield {"calls": a["calls"] + [["union", b], ["orderby", [A(ux, "zz")], "desc"]]}
    yield {"calls": a["calls"] + [["intersect", b2], ["orderby", [ux], "asc"], ["offset", 1], ["limit", 2]]}
    yield {"calls": a["calls"] + [["union_all", b], ["intersect", a2]]}
    # set operations made with one operator only (pure UNION / pure UNION ALL chains) with and without their own tail
    for op in ("union", "union_all"):
        yield {"calls": a["calls"] + [[op, b]]}
        yield {"calls": a["calls"] + [[op, b], ["orderby", [A(ux, "k")], "desc"], ["limit", 2]]}
        yield {"calls": a["calls"] + [[op, b], [op, a2], ["offset", 1], ["limit", 2]]}
    # locking clause on the inner query
    yield {"calls": [["from", U], ["select", [ux]], ["where", ["cmp", "=", uy, raw(1)]], ["for_update", {}]]}
    yield {"calls": [["from", U], ["select", [A(ux, "k")]], ["orderby", [ux], "asc"], ["limit", 2], ["for_update", {"skip_locked": True}]]}
    yield from _with_inner_programs()


def _with_inner_programs():
    """inner queries that carry their own WITH clause (plain and aliased CTE bodies, values and aliased terms inside the body)"""
    body = {"calls": [["from", V], ["select", [A(["f", "v", "x"], "x"), ["f", "v", "id"]]], ["where", ["cmp", ">", A(["f", "v", "x"], "bx"), raw(3)]]]}
    body_al = {"calls": body["calls"] + [["as", "cb"]]}
    body_set = {"calls": [["from", V], ["select", [["f", "v", "x"]]], ["union_all", {"calls": [["from", U], ["select", [ux]]]}]]}
    for b in (body, body_al, body_set):
        yield {"calls": [["with", "ic", b], ["from", ["cte", "ic"]], ["select", [["f", "ic", "x"]]]]}
        yield {"calls": [["with", "ic", b], ["from", ["cte", "ic"]], ["select", [A(["f", "ic", "x"], "k")]], ["where", ["cmp", "=", A(["f", "ic", "x"], "wx"), raw(1)]],
                         ["orderby", [A(["f", "ic", "x"], "k")], "asc"], ["limit", 2]]}
        yield {"calls": [["with", "ic", b], ["from", U], ["join", "inner", ["cte", "ic"], ["on", ["cmp", "=", uid, ["f", "ic", "x"]]]], ["select", [ux]]]}
        yield {"calls": [["with", "ic", b], ["with", "ic2", body], ["from", ["cte", "ic"]], ["select", [["f", "ic", "x"]]],
                         ["where", ["insub", ["f", "ic", "x"], {"calls": [["from", ["cte", "ic2"]], ["select", [["f", "ic2", "x"]]]]}]]]}


# ---- embedding positions: fn(Q, I) -> (outer object, wrap, alias) ----------------------------------------------
#   wrap: "paren" | "bare" | "setop" (dialect decides) ; alias: expected alias token after the fragment or None


def _t():
    return Table("t")


def p_from(Q, I):
    I = I.as_("e1")
    return Q.from_(I).select(I.x), "paren", "e1"


def p_from_auto(Q, I):
    o = Q.from_(I).select("*")
    return o, "paren", "sq0"


def p_join(Q, I):
    I = I.as_("j1")
    t = _t()
    return Q.from_(t).join(I).on(t.id == I.x).select(t.a), "paren", "j1"


def p_in(Q, I):
    t = _t()
    return Q.from_(t).select(t.a).where(t.a.isin(I)), "paren", None


def p_in_aliased(Q, I):
    t = _t()
    return Q.from_(t).select(t.a).where(t.a.isin(I.as_("zz"))), "paren", None


def p_cmp_aliased(Q, I):
    t = _t()
    return Q.from_(t).select(t.a).where((t.a == I.as_("zz")) & (t.b > 0)), "paren", None


def p_not_in_aliased(Q, I):
    t = _t()
    return Q.from_(t).select(t.a).where(~t.a.isin(I.as_("zz"))), "paren", None


def p_and_or_in_aliased(Q, I):
    t = _t()
    return Q.from_(t).select(t.a).where((t.b == 1) & ((t.b == 2) | t.a.isin(I.as_("zz")))), "paren", None


def p_select_case_in_aliased(Q, I):
    t = _t()
    return Q.from_(t).select(Case().when(t.a.isin(I.as_("zz")), 1).else_(0).as_("c")), "paren", None


def p_select_in_aliased(Q, I):
    t = _t()
    return Q.from_(t).select(t.a, t.a.isin(I.as_("zz")).as_("flag")), "paren", "flag"  # the criterion's alias, not the subquery's


def p_select_cmp_right_aliased(Q, I):
    t = _t()
    return Q.from_(t).select(t.a, (t.a < I.as_("zz")).as_("flag")), "paren", "flag"  # the comparison's alias, not the operand's


def p_select_cmp_left_aliased(Q, I):
    t = _t()
    return Q.from_(t).select((I.as_("zz") > t.a).as_("flag"), t.a), "paren", None


def p_select_arith_right_aliased(Q, I):
    t = _t()
    return Q.from_(t).select((t.a + I.as_("zz")).as_("tot")), "paren", "tot"


def p_join_on_value(Q, I):
    I = I.as_("j2")
    t = _t()
    return Q.from_(t).join(I).on((t.id == I.x) & (t.b == 7)).select(t.a).where(t.a > 8), "paren", "j2"


def p_func_arg_aliased(Q, I):
    t = _t()
    return Q.from_(t).select(FN.Coalesce(I.as_("zz"), 0)), "paren", None


def p_notin(Q, I):
    t = _t()
    return Q.from_(t).select(t.a).where(t.a.notin(I)), "paren", None


def p_not_in(Q, I):
    t = _t()
    return Q.from_(t).select(t.a).where(~t.a.isin(I)), "paren", None


def p_and_in(Q, I):
    t = _t()
    return Q.from_(t).select(t.a).where((t.b == 1) & ((t.b == 2) | t.a.isin(I))), "paren", None


def p_cmp(Q, I):
    t = _t()
    return Q.from_(t).select(t.a).where(t.a == I), "paren", None


def _mk_cmp(name, op):
    def pos(Q, I):
        t = _t()
        return Q.from_(t).select(t.a).where(op(t.a, I)), "paren", None

    pos.__name__ = "p_" + name
    return pos


# every comparison operator / named comparison method with the query as the right operand, and the reflected forms
p_cmp_ne = _mk_cmp("cmp_ne", lambda a, I: a != I)
p_cmp_lt = _mk_cmp("cmp_lt", lambda a, I: a < I)
p_cmp_le = _mk_cmp("cmp_le", lambda a, I: a <= I)
p_cmp_gt = _mk_cmp("cmp_gt", lambda a, I: a > I)
p_cmp_ge = _mk_cmp("cmp_ge", lambda a, I: a >= I)
p_cmp_m_lte = _mk_cmp("cmp_m_lte", lambda a, I: a.lte(I))
p_cmp_m_gte = _mk_cmp("cmp_m_gte", lambda a, I: a.gte(I))
p_cmp_m_eq = _mk_cmp("cmp_m_eq", lambda a, I: a.eq(I))
p_cmp_m_ne = _mk_cmp("cmp_m_ne", lambda a, I: a.ne(I))
p_arith_sub = _mk_cmp("arith_sub", lambda a, I: (a - I) > 0)
p_arith_rdiv = _mk_cmp("arith_rdiv", lambda a, I: (1 / (a * I)) > 0)
p_between_lo = _mk_cmp("between_lo", lambda a, I: a.between(I, 9))
p_like_pat = _mk_cmp("like_pat", lambda a, I: a.like(I))


def p_setop_same_twice(Q, I):
    # the embedded query is an operand twice (the same object): every occurrence is rendered, and rendered the same
    t = _t()
    return Q.from_(t).select(t.a).except_of(I).union(I), "setop", None


def p_setop_same_twice_intersect(Q, I):
    t = _t()
    return Q.from_(t).select(t.a).union(I).intersect(I).union_all(I), "setop", None


def p_select_item(Q, I):
    t = _t()
    return Q.from_(t).select(t.a, I), "paren", None


def p_select_item_aliased(Q, I):
    t = _t()
    return Q.from_(t).select(t.a, I.as_("c1")), "paren", "c1"


def p_cte(Q, I):
    return Q.with_(I, "c0").from_(AliasedQuery("c0")).select("*"), "cte", None


def p_setop_right(Q, I):
    t = _t()
    return Q.from_(t).select(t.a).union_all(I), "setop", None


def p_setop_base(Q, I):
    t = _t()
    return I.union(Q.from_(t).select(t.a)), "setop", None


def p_setop_chain_right(Q, I):
    # the second call of a chain: the new operand (possibly itself a set operation) stays one operand
    t, w = _t(), Table("w")
    return Q.from_(t).select(t.a).union_all(Q.from_(w).select(w.a)).union(I), "setop", None


def p_setop_chain_mid(Q, I):
    t, w = _t(), Table("w")
    return Q.from_(t).select(t.a).intersect(I).union_all(Q.from_(w).select(w.a)), "setop", None


def p_setop_chain_right_all(Q, I):
    t, w = _t(), Table("w")
    return Q.from_(t).select(t.a).union_all(Q.from_(w).select(w.a)).union_all(I), "setop", None


def p_setop_chain_three(Q, I):
    t, w = _t(), Table("w")
    return Q.from_(t).select(t.a).union(Q.from_(w).select(w.a)).union(Q.from_(w).select(w.b)).union(I), "setop", None


def p_as_select(Q, I):
    return Query.create_table("n").as_select(I), "paren", None


def p_update_from(Q, I):
    t = _t()
    I = I.as_("uf")
    return Q.update(t).from_(I).set(t.a, I.x).where(t.id == I.x), "paren", "uf"


def p_delete_in(Q, I):
    t = _t()
    return Q.from_(t).delete().where(t.a.isin(I)), "paren", None


def p_insert_value(Q, I):
    return Q.into(_t()).insert(1, I), "paren", None


def p_func_arg(Q, I):
    t = _t()
    return Q.from_(t).select(FN.Coalesce(I, 0)), "paren", None


def p_case_then(Q, I):
    t = _t()
    return Q.from_(t).select(Case().when(t.a == 1, I).else_(0)), "paren", None


def p_having(Q, I):
    t = _t()
    return Q.from_(t).select(t.a).groupby(t.a).having(FN.Count(t.b) > I), "paren", None


def p_join_on(Q, I):
    t, w = _t(), Table("w")
    return Q.from_(t).join(w).on((t.id == w.id) & w.z.isin(I)).select(t.a), "paren", None


def p_nested_from(Q, I):
    I = I.as_("e2")
    mid = Q.from_(I).select(I.x).where(I.x > 0).as_("m1")
    return Q.from_(mid).select(mid.x), "paren", "e2"


POS = {f.__name__[2:]: f for f in (p_from, p_from_auto, p_join, p_in, p_in_aliased, p_cmp_aliased, p_func_arg_aliased, p_select_in_aliased, p_select_cmp_right_aliased, p_select_cmp_left_aliased, p_select_arith_right_aliased, p_join_on_value, p_not_in_aliased, p_and_or_in_aliased, p_select_case_in_aliased, p_notin, p_not_in, p_and_in, p_cmp, p_select_item,
                                   p_select_item_aliased, p_cte, p_setop_right, p_setop_base, p_setop_chain_right, p_setop_chain_right_all, p_setop_chain_three, p_setop_chain_mid, p_as_select, p_update_from,
                                   p_delete_in, p_insert_value, p_func_arg, p_case_then, p_having, p_join_on, p_nested_from,
                                   p_cmp_ne, p_cmp_lt, p_cmp_le, p_cmp_gt, p_cmp_ge, p_cmp_m_lte, p_cmp_m_gte, p_cmp_m_eq, p_cmp_m_ne, p_arith_sub, p_arith_rdiv,
                                   p_between_lo, p_like_pat, p_setop_same_twice, p_setop_same_twice_intersect)}


def chunks(tier, seed):
    return [{"d": d, "pos": pos, "tier": tier} for d in fp.CTX for pos in POS]


_INNER = {}


def expand(chunk):
    t = chunk["tier"]
    if t not in _INNER:
        _INNER[t] = list(inner_programs(t))
    for p in _INNER[t]:
        yield {"d": chunk["d"], "pos": chunk["pos"], "inner": p}


PGPAR = re.compile(r"\$\d+")


def clause_at(text, idx):
    """nearest clause keyword before text[idx] (coarse position of the first divergence inside the inner query)"""
    kws = ["SELECT", "FROM", "JOIN", " ON ", "WHERE", "GROUP BY", "HAVING", "ORDER BY", "LIMIT", "OFFSET", "UNION", "INTERSECT"]
    best, bi = "START", -1
    for k in kws:
        j = text.rfind(k, 0, idx + 1)
        if j > bi:
            best, bi = k.strip(), j
    return best


def run_case(case):
    res = Result()
    d, pos, ip = case["d"], case["pos"], case["inner"]
    Q = fp.QCLS[d]
    lexd = "sqlite" if d == "generic" else d
    try:
        I = prog.build(ip, dialect=d)
        I2 = prog.build(ip, dialect=d)
    except Exception as e:
        res.nontrivial = 1
        res.violate("C10|inner-build-raises|%s" % type(e).__name__, "a valid inner query of the menu was rejected while it was built",
                    dialect=d, inner=ip, error=str(e)[:200])
        return res
    if pos in ("cte",) and not isinstance(I, QueryBuilder):
        pass
    from pypika_tortoise.queries import _SetOperation

    if pos == "setop_base" and isinstance(I, _SetOperation):
        return res  # a set operation continued by another call: chain semantics, not an embedding (see C14)
    try:
        outer, wrap, alias = POS[pos](Q, I)
    except Exception as e:
        if (pos, type(e).__name__) in (("as_select", "TypeError"),):  # CREATE TABLE .. AS takes a plain query only
            res.extra["disabled_outer"] = 1
            res.extra.setdefault("disabled_outer_kinds", set()).add("%s:%s" % (pos, type(e).__name__))
            return res
        res.nontrivial = 1
        res.violate("C10|%s|outer-build-raises|%s" % (pos, type(e).__name__), "embedding a valid inner query at this position was rejected",
                    dialect=d, pos=pos, inner=ip, error=str(e)[:200])
        return res
    res.nontrivial = 1
    res.states.append(h64(json.dumps([pos, ip], sort_keys=True)))
    for param, flags in ((False, {}), (True, {}), (False, {"as_keyword": True})):
        res.transitions += 2
        try:
            s, sv = prog.render(I2, d, param=param, **flags)
            o, ov = prog.render(outer, d, param=param, **flags)
        except Exception as e:
            if type(e).__name__ == "SetOperationException":
                res.nontrivial = 0
                return res  # operands with different select-list lengths: rightly rejected
            res.violate("C10|%s|raises|%s" % (pos, type(e).__name__), "rendering raised", dialect=d, inner=ip, error=str(e)[:200])
            return res
        res.outcomes.append(h64(o))
        if not s:
            continue
        if param and d == "postgresql":
            s_n, o_n = PGPAR.sub("$0", s), PGPAR.sub("$0", o)
        else:
            s_n, o_n = s, o
        wrapped = wrap == "paren" or wrap == "cte" or (wrap == "setop" and Q._builder().wrap_set_operation_queries)
        frag = "(" + s_n + ")" if wrapped else s_n
        idx = o_n.find(frag)
        if idx < 0:
            # where does the embedded text diverge from the stand-alone text?
            head = s_n
            # longest prefix of s that occurs in o
            lo, hi = 0, len(head)
            while lo < hi:
                mid = (lo + hi + 1) // 2
                if head[:mid] in o_n:
                    lo = mid
                else:
                    hi = mid - 1
            cl = clause_at(s_n, lo)
            res.violate("C10|%s|text-differs|%s" % (pos, cl),
                        "the text emitted for the embedded query is not its stand-alone rendering (diverges in its %s clause)" % cl,
                        dialect=d, position=pos, inner=ip, standalone=s, outer=o, param=param, diverges_after=s_n[max(0, lo - 30):lo])
            return res
        want_n = {"setop_same_twice": 2, "setop_same_twice_intersect": 3}.get(pos)
        if want_n is not None and o_n.count(frag) != want_n and not (param and d == "postgresql"):
            res.violate("C10|%s|occurrences" % pos, "the query is an operand %d times but its text occurs %d times" % (want_n, o_n.count(frag)),
                        dialect=d, position=pos, inner=ip, standalone=s, outer=o, param=param)
            return res
        rest = o_n[idx + len(frag):]
        try:
            nxt = lex(rest, lexd)[:2]
        except LexError:
            nxt = []
        has_alias = bool(nxt) and (nxt[0].kind == "ID" or (nxt[0].kind == "WORD" and nxt[0].value == "AS"))
        alias_tok = None
        if has_alias:
            alias_tok = nxt[0].value if nxt[0].kind == "ID" else (nxt[1].value if len(nxt) > 1 else None)
        if alias is not None and alias_tok != alias:
            res.violate("C10|%s|alias-missing" % pos, "alias-defining position does not emit the alias %r after the subquery" % alias,
                        dialect=d, inner=ip, outer=o, rest=rest[:40])
            return res
        if alias is None and has_alias and pos != "cte":
            res.violate("C10|%s|alias-unexpected" % pos, "an alias follows the subquery in a position that defines none",
                        dialect=d, inner=ip, outer=o, rest=rest[:40])
            return res
        if param:
            k = o_n[:idx].count("$0") if d == "postgresql" else len([t for t in lex(o[:idx], lexd) if t.kind == "PAR"])
            if fp.vrepr(ov[k:k + len(sv)]) != fp.vrepr(sv):
                res.violate("C10|%s|values-not-contiguous" % pos, "the inner query's values are not a contiguous slice of the outer list",
                            dialect=d, inner=ip, outer=o, outer_values=fp.vrepr(ov), inner_values=fp.vrepr(sv), offset=k)
                return res
    return res


def describe():
    return {
        "rule": "inner queries = product of menus (select list x WHERE with aliased terms x GROUP BY x HAVING x ORDER BY x "
                "JOIN..ON with aliased term x FROM table|nested subquery x LIMIT) + set operations; x 22 embedding "
                "positions x 6 dialects x {inline, parameterised}; non-trivial = both built; distinct = (position, inner)",
        "bound": {"quick": "reduced menus (3x5x3x2x2x2x2x2)", "thorough": "full menus (3x6x4x2x3x2x2x2)"},
        "assumptions": ["the stand-alone rendering is taken from a second, freshly built copy of the inner query in the same "
                        "dialect class", "substring containment of '(' + standalone + ')' locates the embedded text"],
    }
