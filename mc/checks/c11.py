"""C11 — column references are qualified exactly when needed and always by the right name.

Bounded-exhaustive: statement kinds x 1..3 row sources of every shape (plain, aliased, schema-qualified, temporal,
subquery, CTE reference, set operation) x how they are combined (FROM list / joins) x a field of every source in
every clause that can hold one x foreign-table WHERE x six dialects.  The expected qualifier is encoded in the
column name (<source key>__<clause role>), so the oracle is a token-level check: every such column token is
preceded by `<display name of its source>.` exactly when the reference model says so, and never otherwise.
"""
from __future__ import annotations

import itertools
import re

from mc.common import Result, h64
from mc import fp, prog
from mc.lexer import LexError, lex

from pypika_tortoise import AliasedQuery, Field, Query, Table
from pypika_tortoise import functions as FN
from pypika_tortoise import analytics as AN
from pypika_tortoise.enums import JoinType
from pypika_tortoise.terms import Case, Criterion, SystemTimeValue, Tuple
from mc import zoo as _zoo

ZOO = _zoo.term_zoo()[0]
ZOO_BY = {n_: (k_, b_) for n_, k_, b_ in ZOO}

PROPERTY = "C11"

SHAPES = ["plain", "aliased", "schema", "schema_aliased", "temporal", "subquery", "subquery_auto", "cte", "setop", "setop_auto", "setop_ordered"]
COLRX = re.compile(r"^(?P<key>[a-z0-9]+)__(?P<role>[a-z]+)\d*$")


class Src:
    """a row source: library object, display name (= expected qualifier), whether it is aliased"""

    def __init__(self, shape, key, Q, q_holder):
        self.shape, self.key = shape, key
        if shape == "plain":
            self.obj = Table(key)
            self.aliased = False
        elif shape in ("plain_twin", "schema_twin"):
            # the statement's source and the table the columns were created from are equal tables built separately - the second
            # one handed out by another dialect's query class (Table.__eq__ does not look at the class)
            other = fp.QCLS["generic"] if Q is fp.QCLS["mysql"] else fp.QCLS["mysql"]
            if shape == "plain_twin":
                self.obj, self.ftab = Table(key), other.Table(key)
            else:
                self.obj, self.ftab = Table(key, schema="sch"), other.Table(key, schema="sch")
            self.aliased = False
        elif shape == "aliased_quoted":
            # an alias that contains the quote characters: declared and referenced under the same (escaped) spelling
            # (an Oracle identifier cannot contain a double quote at all)
            self.obj = Table("base_" + key).as_(key + ('q9`x' if Q.__name__ == "OracleQuery" else 'q"9`x'))
            self.aliased = True
        elif shape == "aliased":
            # a table that was in use (hashed, compared, printed) before it was renamed: nothing memoised on the un-aliased
            # object may travel into the copy
            t0 = Table("base_" + key)
            {t0: 1}, t0 == t0, str(t0)
            self.obj = t0.as_(key)
            self.aliased = True
        elif shape == "schema":
            self.obj = Table(key, schema="sch")
            self.aliased = False
        elif shape == "schema_aliased":
            self.obj = Table("base_" + key, schema=("db", "sch"), alias=key)
            self.aliased = True
        elif shape == "temporal":
            self.obj = Table(key).for_(SystemTimeValue().as_of("2020-01-01"))
            self.aliased = False
        elif shape == "subquery":
            self.obj = Q.from_(Table("in_" + key)).select("a", "b").as_(key)
            self.aliased = True
        elif shape == "subquery_auto":
            self.obj = Q.from_(Table("in_" + key)).select("a", "b")
            self.aliased = True  # receives sqN when used as a source
        elif shape == "subquery_auto_nested":
            # an un-aliased subquery whose own FROM is an un-aliased subquery over an un-aliased subquery
            self.obj = Q.from_(Q.from_(Q.from_(Table("in_" + key)).select("a", "b")).select("a", "b")).select("a", "b")
            self.aliased = True
        elif shape == "cte":
            q_holder[0] = q_holder[0].with_(Q.from_(Table("in_" + key)).select("a", "b"), key)
            self.obj = AliasedQuery(key)
            self.aliased = True
        elif shape == "setop":
            self.obj = Q.from_(Table("in_" + key)).select("a").union(Q.from_(Table("in2_" + key)).select("a")).as_(key)
            self.aliased = True
        elif shape == "setop_ordered":
            # a set operation with its own ORDER BY: the ordered column names a result column and stays bare wherever the
            # set operation is embedded
            t1, t2 = Table("in_" + key), Table("in2_" + key)
            self.obj = (Q.from_(t1).select(Field("inord__bare", table=t1)).union(Q.from_(t2).select(Field("inord__bare", table=t2)))
                        .orderby(Field("inord__bare", table=t1)).as_(key))
            self.aliased = True
        elif shape == "setop_auto":
            self.obj = Q.from_(Table("in_" + key)).select("a").union(Q.from_(Table("in2_" + key)).select("a"))
            self.aliased = True  # receives sqN when used as a source
        self.is_subquery = shape in ("subquery", "subquery_auto", "subquery_auto_nested")

    def f(self, role):
        return Field("%s__%s" % (self.key, role), table=getattr(self, "ftab", None) or self.obj)

    def display(self):
        return self.obj.alias if getattr(self.obj, "alias", None) else self.obj._table_name


def select_cases():
    for n in (1, 2, 3):
        for shapes in itertools.product(SHAPES, repeat=n):
            if n == 3 and not (shapes[0] in ("plain", "aliased", "subquery") and shapes[2] in ("plain", "aliased")):
                continue
            for combine in (["from"] if n == 1 else ["join", "from_list", "join_using"]):
                for foreign in (False, True):
                    if foreign and n > 1:
                        continue
                    yield {"k": "select", "shapes": list(shapes), "combine": combine, "foreign": foreign}
    for sh2 in ("plain", "aliased", "aliased_quoted"):
        yield {"k": "select", "shapes": ["aliased_quoted", sh2], "combine": "join", "foreign": False}
    yield {"k": "select", "shapes": ["aliased_quoted"], "combine": "from", "foreign": False}
    for tw in ("plain_twin", "schema_twin"):
        yield {"k": "select", "shapes": [tw], "combine": "from", "foreign": False}
        for sh2 in ("plain", "aliased", "subquery"):
            for combine in ("join", "from_list", "join_using"):
                yield {"k": "select", "shapes": [tw, sh2], "combine": combine, "foreign": False}
                yield {"k": "select", "shapes": [sh2, tw], "combine": combine, "foreign": False}
    # a join whose ON criterion mentions only sources that are already there (and constants)
    for sh in ("plain", "aliased", "subquery", "schema"):
        for sh2 in ("plain", "aliased", "subquery"):
            yield {"k": "select", "shapes": [sh, sh2], "combine": "join_on_base_only", "foreign": False}
    # several automatically named subqueries in one statement (plain and nested), in every mix of from_() and join()
    AUTO = ("subquery_auto", "subquery_auto_nested", "setop_auto")
    for n in (2, 3):
        for shapes in itertools.product(AUTO, repeat=n):
            for combine in ("join", "from_list", "from_then_join"):
                yield {"k": "select", "shapes": list(shapes), "combine": combine, "foreign": False}
        for shapes in itertools.product(AUTO, repeat=n):
            yield {"k": "select", "shapes": ["plain"] + list(shapes), "combine": "join", "foreign": False}
    # table.* references: qualified like a column of that source would be
    STAR_SHAPES = ("plain", "aliased", "schema", "schema_aliased", "temporal", "subquery")
    for sh in STAR_SHAPES:
        yield {"k": "star", "shapes": [sh]}
        for sh2 in STAR_SHAPES:
            yield {"k": "star", "shapes": [sh, sh2]}
    for sh in SHAPES:
        for slot in SLOTS:
            yield {"k": "correlated", "shapes": [sh], "slot": slot}
        # a local PREWHERE next to the correlated WHERE (and the other way round), in both call orders
        for pre in ("pre_local_first", "pre_local_last", "pre_foreign_first", "pre_foreign_last"):
            yield {"k": "correlated", "shapes": [sh], "slot": "eq", "pre": pre}
        # the outer row source is not a plain table
        for outer in ("aliased", "schema_aliased", "subquery", "cte", "setop"):
            for slot in ("eq", "eq_swapped", "between_lo", "fn_arg", "chain3"):
                yield {"k": "correlated", "shapes": [sh], "slot": slot, "outer": outer}
    # every term kind with the outer column in each of its operand slots
    for zname, n, _b in ZOO:
        if n == 0 or zname in ("QueryBuilder", "_SetOperation", "ContainsCriterion.sub", "Star", "Values", "AtTimezone"):
            continue
        for slot in range(n):
            yield {"k": "correlated_zoo", "shapes": ["plain"], "term": zname, "slot": slot}
    for order in ("inner_first", "outer_first"):
        for col in ("same", "different"):
            for via in ("ctor", "as_after_use"):
                yield {"k": "correlated_self", "shapes": ["plain"], "order": order, "col": col, "via": via}
    # clause-setting calls in every order; columns given by name (bound to the first FROM table)
    for sh in ("plain", "aliased", "schema"):
        for order in itertools.permutations(("from", "select", "where", "orderby")):
            yield {"k": "call_order", "shapes": [sh], "order": list(order), "join": False}
        for order in (("from", "join", "select", "where", "orderby"), ("from", "select", "where", "join", "orderby"), ("from", "where", "orderby", "select", "join")):
            yield {"k": "call_order", "shapes": [sh, "plain"], "order": list(order), "join": True}
    for first in ("lookup_on_base", "no_lookup"):
        for naming in ("auto", "as_"):
            yield {"k": "derived_sources", "shapes": ["plain"], "first": first, "naming": naming}


def dml_cases():
    for sh in ("plain", "aliased", "schema", "schema_aliased"):
        for api in ("select", "update", "insert"):
            yield {"k": "table_api", "shapes": [sh], "api": api}
    for sh in ("plain", "aliased", "schema"):
        yield {"k": "insert", "shapes": [sh]}
        yield {"k": "insert_select", "shapes": [sh, "plain"]}
        yield {"k": "insert_select", "shapes": [sh, "aliased"]}
        for foreign in (False, True):
            yield {"k": "update", "shapes": [sh], "foreign": foreign}
            yield {"k": "delete", "shapes": [sh], "foreign": foreign}
        for sh2 in ("plain", "aliased", "subquery"):
            yield {"k": "update_from", "shapes": [sh, sh2]}
            yield {"k": "update_join", "shapes": [sh, sh2]}


def chunks(tier, seed):
    return [{"d": d, "gen": g} for d in fp.CTX for g in ("select", "dml")]


def expand(chunk):
    gen = select_cases if chunk["gen"] == "select" else dml_cases
    for c in gen():
        yield dict(c, d=chunk["d"])


KEYS = ["s1", "s2", "s3", "s4"]

# where the reference to the outer query's table sits inside the correlated subquery's WHERE (own column, outer column)
SLOTS = {
    "eq": lambda i, o: i == o,
    "eq_swapped": lambda i, o: o == i,
    "between_lo": lambda i, o: i.between(o, 50),
    "between_hi": lambda i, o: i.between(1, o),
    "period": lambda i, o: i.from_to(o, 9),
    "isin_member": lambda i, o: i.isin([1, o]),
    "isin_tuple": lambda i, o: Tuple(i, 1).isin([Tuple(o, 2)]),
    "fn_arg": lambda i, o: FN.Coalesce(o, 1) == i,
    "fn_nested": lambda i, o: i == FN.Abs(FN.Coalesce(None, o)),
    "case_then": lambda i, o: Case().when(i == 1, o).else_(0) > 0,
    "case_when": lambda i, o: Case().when(o == 1, i).else_(0) > 0,
    "case_else": lambda i, o: Case().when(i == 1, 2).else_(o) > 0,
    "arith": lambda i, o: i == o + 1,
    "arith_deep": lambda i, o: i == (2 * (o - 1)) / 3,
    "neg": lambda i, o: i == -o,
    "not": lambda i, o: (i == o).negate(),
    "nested_or": lambda i, o: (i > 0) & ((i < 1) | (i == o)),
    "chain3": lambda i, o: ((i > 0) & (i < 9)) & (i == o),
    "chain4_inner": lambda i, o: (((i > 0) & (i == o)) & (i < 9)) & (i != 5),
    "isnull_or": lambda i, o: i.isnull() | o.isnull(),
    "like": lambda i, o: i.like(o),
    "bitwiseand": lambda i, o: (i + o).bitwiseand(3),
    "agg_filter": lambda i, o: i == FN.Coalesce(i, o),
    "extract": lambda i, o: FN.Extract("YEAR", o) == i,
    "extract_expr": lambda i, o: FN.Extract("MONTH", FN.Coalesce(o, i)) == 3,
    "cast": lambda i, o: FN.Cast(o, "INT") == i,
    "upper_lower": lambda i, o: FN.Upper(FN.Lower(o)) == i,
    "concat": lambda i, o: FN.Concat(i, "-", o) == "x",
}
_LAST_SRCS = []


def build(case, Q):
    """-> (statement, expectations) ; expectations: dict column-name -> (qualified?, qualifier)"""
    qh = [Q._builder()]
    srcs = [Src(sh, KEYS[i], Q, qh) for i, sh in enumerate(case["shapes"])]
    del _LAST_SRCS[:]
    _LAST_SRCS.extend(srcs)
    q = qh[0]
    k = case["k"]
    exp = {}
    if "setop_ordered" in case["shapes"]:
        exp["inord__bare"] = (False, None)
    is_pg = Q.__name__ == "PostgreSQLQuery"

    def expect(field_sources, roles, multi, bare_roles=()):
        for s in field_sources:
            for r in roles:
                name = "%s__%s" % (s.key, r)
                if r in bare_roles:
                    exp[name] = (False, None)
                else:
                    exp[name] = (bool(multi or s.aliased), s)

    if k == "select":
        a = srcs[0]
        q = q.from_(a.obj)
        if case["combine"] == "from_list":
            for s in srcs[1:]:
                q = q.from_(s.obj)
        elif case["combine"] == "from_then_join":
            q = q.from_(srcs[1].obj)
            for s in srcs[2:]:
                q = q.join(s.obj, JoinType.left).on(a.f("on") == s.f("on"))
        elif case["combine"] == "join_on_base_only":
            for i, s in enumerate(srcs[1:]):
                q = q.join(s.obj, JoinType.left).on(a.f("on") > 100)
        elif case["combine"] in ("join", "join_using"):
            for i, s in enumerate(srcs[1:]):
                j = q.join(s.obj, JoinType.left if i else JoinType.inner)
                if case["combine"] == "join":
                    q = j.on(a.f("on") == s.f("on"))
                else:
                    q = j.using("shared__using")
        multi = len(srcs) > 1 or a.is_subquery or case.get("foreign")
        sel = [s.f("sel") for s in srcs] + [(srcs[-1].f("selx") + 1).as_("x1"), FN.Count(srcs[0].f("selc")).as_("n1")]
        # a window function: argument, PARTITION BY (a column and expressions over columns), ORDER BY (an expression)
        sel.append(AN.Sum(srcs[0].f("wsum")).over(srcs[-1].f("wpart"), FN.Upper(srcs[0].f("wpartfn")), srcs[-1].f("wparta") + 1)
                   .orderby(srcs[0].f("word") * 2, srcs[-1].f("wordf")).as_("w1"))
        q = q.select(*sel)
        for s in srcs:
            q = q.where(s.f("whr") > 1)
        if case.get("foreign"):
            q = q.where(Table("foreign1").field("foreign1__whr") == 2)
            exp["foreign1__whr"] = (True, "foreign1")
        q = q.groupby(*[s.f("grp") for s in srcs]).having(FN.Sum(srcs[-1].f("hav")) > 0).orderby(*[s.f("ord") for s in srcs])
        # a term that is selected under an alias and also grouped / ordered by: where the dialect writes the expression instead
        # of the alias, the expression is qualified like everywhere else
        ga = lambda: (srcs[-1].f("galias") + 0).as_("ga1")  # noqa: E731
        q = q.select(ga()).groupby(ga()).orderby(ga())
        expect(srcs[-1:], ["galias"], multi)
        expect(srcs, ["sel", "whr", "grp", "ord", "on"], multi)
        if is_pg:
            # the dialect's own column list: DISTINCT ON (columns given as Field objects of their sources; a name given as a
            # string is a column without a source there and is not claimed)
            q = q.distinct_on(*[s.f("don") for s in srcs])
            expect(srcs, ["don"], multi)
        expect(srcs[-1:], ["selx", "hav"], multi)
        expect(srcs[:1], ["selc", "wsum", "wpartfn", "word"], multi)
        expect(srcs[-1:], ["wpart", "wparta", "wordf"], multi)
        exp["shared__using"] = (False, None)
        return q, exp
    if k == "call_order":
        a = srcs[0]
        multi = case["join"]
        for step in case["order"]:
            if step == "from":
                q = q.from_(a.obj)
            elif step == "join":
                q = q.join(srcs[1].obj).on(a.f("on") == srcs[1].f("on"))
            elif step == "select":
                # (a column given by name needs the FROM table to exist already)
                q = q.select(a.f("sel"), "s1__selstr") if case["order"].index("from") < case["order"].index("select") else q.select(a.f("sel"))
            elif step == "where":
                q = q.where(a.f("whr") > 1)
            elif step == "orderby":
                q = q.orderby("s1__ordstr").orderby(a.f("ord")).groupby("s1__grpstr") if case["order"].index("from") < case["order"].index("orderby") else q.orderby(a.f("ord"))
        expect([a], ["sel", "whr", "ord", "selstr", "ordstr", "grpstr", "on"], multi)
        if multi:
            expect(srcs[1:], ["on"], True)
        return q, exp
    if k == "star":
        a = srcs[0]
        q = q.from_(a.obj)
        for s2 in srcs[1:]:
            q = q.join(s2.obj).on(a.f("on") == s2.f("on"))
        multi = len(srcs) > 1 or a.is_subquery
        q = q.select(*[s_.obj.star for s_ in srcs]).where(a.f("whr") > 1)
        expect(srcs, ["on", "whr"], multi)
        case["_stars"] = [(s_.display() if (multi or s_.aliased) else None) for s_ in srcs]
        return q, exp
    if k == "correlated":
        a = srcs[0]
        if case.get("outer"):
            oh = [Q._builder()]
            osrc = Src(case["outer"], "outer1", Q, oh)
            outer, oq, o_qual = osrc.obj, oh[0], True
        else:
            outer, oq, o_qual = Table("outer1"), Q._builder(), False
        of = lambda r: Field("outer1__" + r, table=outer)  # noqa
        inner = q.from_(a.obj).select(a.f("sel"))
        pre = case.get("pre")
        local, foreign = a.f("whr") > 0, SLOTS[case.get("slot", "eq")](a.f("whr"), of("corr"))
        if pre == "pre_local_first":
            inner = inner.prewhere(local).where(foreign)
        elif pre == "pre_local_last":
            inner = inner.where(foreign).prewhere(local)
        elif pre == "pre_foreign_first":
            inner = inner.prewhere(foreign).where(local)
        elif pre == "pre_foreign_last":
            inner = inner.where(local).prewhere(foreign)
        else:
            inner = inner.where(foreign)
        stmt = oq.from_(outer).select(of("sel")).where(of("whr").isin(inner))
        expect(srcs, ["sel", "whr"], True)  # the inner query refers to a row source outside its own sources
        exp["outer1__corr"] = (True, "outer1")
        exp["outer1__sel"] = (o_qual, "outer1")
        exp["outer1__whr"] = (o_qual, "outer1")
        return stmt, exp
    if k == "correlated_zoo":
        a = srcs[0]
        outer = Table("outer1")
        n, b = ZOO_BY[case["term"]]
        flds = [(Field("outer1__corr", table=outer) if i == case["slot"] else a.f("whr")) for i in range(n)]
        term = b(flds)
        crit = term if isinstance(term, Criterion) else (term == 1)
        inner = q.from_(a.obj).select(a.f("sel")).where(crit)
        stmt = Q.from_(outer).select(outer.field("outer1__sel")).where(outer.field("outer1__whr").isin(inner))
        expect(srcs, ["sel", "whr"], True)
        exp["outer1__corr"] = (True, "outer1")
        exp["outer1__sel"] = (False, None)
        exp["outer1__whr"] = (False, None)
        return stmt, exp
    if k == "correlated_self":
        # the inner source is the outer table under an alias: same table name, same column name on both sides
        outer = Table("emp")
        if case.get("via") == "as_after_use":
            {outer: 1}, outer == outer, str(outer), str(Q.from_(outer).select(outer.star).where(outer.x > 0))
            inner_t = outer.as_("e2")
        else:
            inner_t = Table("emp", alias="e2")
        c_in = Field("e2__whr", table=inner_t)
        c_out = Field("e2__whr" if case["col"] == "same" else "emp__corr", table=outer)
        crit = (c_in == c_out) if case["order"] == "inner_first" else (c_out == c_in)
        inner = Q.from_(inner_t).select(Field("e2__sel", table=inner_t)).where(crit)
        stmt = Q.from_(outer).select(Field("emp__sel", table=outer)).where(Field("emp__whr", table=outer).isin(inner))
        e2 = Src.__new__(Src)
        e2.shape, e2.key, e2.obj, e2.aliased, e2.is_subquery = "aliased", "e2", inner_t, True, False
        exp["e2__sel"] = (True, e2)
        if case["col"] == "different":
            exp["e2__whr"] = (True, e2)
            exp["emp__corr"] = (True, "emp")
        exp["emp__sel"] = (False, None)
        exp["emp__whr"] = (False, None)
        return stmt, exp
    if k == "derived_sources":
        # two row sources derived from one base query (possibly after a column of the base was looked up): a reference
        # taken from one of them must be qualified by exactly that source; the same column names are used on both
        bt = Table("basetab")
        base = Q.from_(bt).select(bt.field("id"), bt.field("grp"), bt.field("val"))
        if case["first"] == "lookup_on_base":
            base.id, base.grp, base["dsh__sel"], base["dsh__on"], base["dsh__whr"]
        lo = base.where(bt.val < 10)
        hi = base.where(bt.val >= 10)
        if case["naming"] == "as_":
            lo, hi = lo.as_("d1"), hi.as_("d2")
        stmt = (Q.from_(lo).join(hi).on(lo["dsh__on"] == hi["dsh__on"]).select(lo["dsh__sel"], hi["dsh__sel"])
                .where(lo["dsh__whr"] > hi["dsh__whr"]))
        case["_names"] = [lo.alias, hi.alias]
        return stmt, exp
    t = srcs[0]
    if k == "insert":
        q = (q.into(t.obj).columns(t.f("col"), t.f("colb")).insert(1, 2).on_conflict(t.f("cft"))
             .do_update(t.f("cfu"), t.f("cfv") + 1).do_update(t.f("cfx")).where(t.f("cfw") > 0))
        if is_pg:
            q = q.returning(t.f("ret"))
        expect([t], ["col", "colb", "cfu", "cfx"], False, bare_roles=("col", "colb", "cfu", "cfx"))
        expect([t], ["cft", "ret"], False)
        for r in ("cfv", "cfw"):  # the EXCLUDED pseudo-table is a second row source in DO UPDATE
            exp["%s__%s" % (t.key, r)] = (True, t)
        if Q.__name__ == "MySQLQuery":
            # ON DUPLICATE KEY UPDATE col=col+1: only the existing row is in scope, the new row has its own alias
            exp["%s__cfv" % t.key] = (None, t)
        return q, exp
    if k == "insert_select":
        u = srcs[1]
        q = q.into(t.obj).columns(t.f("col")).from_(u.obj).select(u.f("sel")).where(u.f("whr") == 1)
        expect([t], ["col"], False, bare_roles=("col",))
        expect([u], ["sel", "whr"], False)
        return q, exp
    if k in ("update", "delete"):
        if k == "update":
            q = q.update(t.obj).set(t.f("setl"), t.f("setr") + 1).where(t.f("whr") == 1)
        else:
            q = q.from_(t.obj).delete().where(t.f("whr") == 1)
        if case.get("foreign"):
            q = q.where(Table("foreign1").field("foreign1__whr") == 2)
            exp["foreign1__whr"] = (True, "foreign1")
        if is_pg and not case.get("foreign"):
            q = q.returning(t.f("ret"))
        multi = bool(case.get("foreign"))
        expect([t], ["setl"], multi, bare_roles=("setl",))
        expect([t], ["setr", "whr", "ret"], multi)
        return q, exp
    u = srcs[1]
    if k == "update_from":
        q = q.update(t.obj).from_(u.obj).set(t.f("setl"), u.f("setr")).where(t.f("whr") == u.f("whr"))
    else:
        q = q.update(t.obj).join(u.obj).on(t.f("on") == u.f("on")).set(t.f("setl"), u.f("setr")).where(u.f("whr") > 1)
    if is_pg:
        q = q.returning(t.f("ret"))
    expect([t, u], ["setr", "whr", "on", "ret"], True)
    expect([t], ["setl"], True, bare_roles=("setl",))
    return q, exp


def run_table_api(case, res):
    """Table.select() / .update() / .insert(): the statement the table starts itself is the statement its query class starts with
    that table (same source, same qualifiers)"""
    d, sh, api = case["d"], case["shapes"][0], case["api"]
    Q = fp.QCLS[d]
    key = "s1"

    def mk():
        if sh == "plain":
            return Table(key, query_cls=Q)
        if sh == "aliased":
            return Table("base_" + key, alias=key, query_cls=Q)
        if sh == "schema":
            return Table(key, schema="sch", query_cls=Q)
        return Table("base_" + key, schema=("db", "sch"), alias=key, query_cls=Q)

    def cont(q, t):
        if api == "select":
            return q.where(t.field("s1__whr") > 1).orderby(t.field("s1__ord"))
        if api == "update":
            return q.set(t.field("s1__set"), t.field("s1__val") + 1).where(t.field("s1__whr") > 1)
        return q

    res.nontrivial = 1
    res.states.append(h64(repr((d, sh, api))))
    try:
        t1, t2 = mk(), mk()
        if api == "select":
            a, b = cont(t1.select(t1.field("s1__sel")), t1), cont(Q.from_(t2).select(t2.field("s1__sel")), t2)
        elif api == "update":
            a, b = cont(t1.update(), t1), cont(Q.update(t2), t2)
        else:
            a, b = t1.insert(1, t1.field("s1__val")), Q.into(t2).insert(1, t2.field("s1__val"))
        ra = [prog.render(a, d, param=p_)[0] for p_ in (False, True)]
        rb = [prog.render(b, d, param=p_)[0] for p_ in (False, True)]
    except Exception as e:
        res.violate("C11|table_api|%s|raises|%s" % (api, type(e).__name__), "building / rendering through the table's own method raised", case=case, error=str(e)[:200])
        return
    res.transitions += 4
    res.outcomes.append(h64(ra[0]))
    if ra != rb:
        res.violate("C11|table_api|%s|differs-from-query-class-statement" % api,
                    "the statement started by the table's own method is not the statement its query class starts with this table "
                    "(source or qualifiers differ)", case=case, via_table=ra[0], via_query_class=rb[0])


def run_case(case):
    res = Result()
    if case["k"] == "table_api":
        run_table_api(case, res)
        return res
    d = case["d"]
    Q = fp.QCLS[d]
    lexd = "sqlite" if d == "generic" else d
    try:
        stmt, exp = build(case, Q)
    except Exception as e:
        # every program of the menu is valid (none is rejected on the reference tree)
        res.nontrivial = 1
        res.violate("C11|%s|build-raises|%s" % (case["k"], type(e).__name__), "a valid statement of the menu was rejected while it was built",
                    case={k_: v_ for k_, v_ in case.items() if not k_.startswith("_")}, error=str(e)[:200])
        return res
    res.nontrivial = 1
    # a derived statement is made and thrown away: the statement under test must not notice
    try:
        for s_ in _LAST_SRCS[:2]:
            if isinstance(s_.obj, Table):
                stmt.replace_table(s_.obj, Table("zz_repl", alias="zz_r"))
    except Exception:
        pass
    res.states.append(h64(repr(sorted((k, str(v)) for k, v in case.items() if k != "d" and not k.startswith("_")))))
    for param in (False, True):
        res.transitions += 1
        try:
            sql, _ = prog.render(stmt, d, param=param)
        except Exception as e:
            res.violate("C11|%s|render-raises|%s" % (case["k"], type(e).__name__), "rendering raised", case=case, error=str(e)[:200])
            return res
        res.outcomes.append(h64(sql))
        try:
            toks = lex(sql, lexd)
        except LexError as e:
            res.violate("C11|%s|unlexable" % case["k"], "statement does not lex", case=case, sql=sql, error=str(e))
            return res
        seen = set()
        for i, t in enumerate(toks):
            if t.kind != "ID":
                continue
            m = COLRX.match(t.value)
            if not m or t.value not in exp:
                continue
            # a column token, not a qualifier: next token is not '.'
            if i + 1 < len(toks) and toks[i + 1].kind == "OP" and toks[i + 1].text == ".":
                continue
            seen.add(t.value)
            want_q, src = exp[t.value]
            if want_q is None:
                continue
            if not want_q and isinstance(case["shapes"][0], str) and m.group("key") == "s1" and case["shapes"][0] in (
                    "aliased",) and m.group("role") in ("col", "colb", "setl", "cfu", "cfx"):
                continue  # bare position vs "an aliased source is always qualified": the statement leaves this open
            has_q = i >= 2 and toks[i - 1].kind == "OP" and toks[i - 1].text == "." and toks[i - 2].kind == "ID"
            qual = toks[i - 2].value if has_q else None
            role = m.group("role")
            # EXCLUDED."col" in upsert assignments is the pseudo-table, not a qualifier of the statement's sources
            if has_q and toks[i - 2].kind == "WORD":
                has_q, qual = False, None
            if i >= 2 and toks[i - 1].kind == "OP" and toks[i - 1].text == "." and toks[i - 2].kind == "WORD" and toks[i - 2].value == "EXCLUDED":
                continue
            shape = src.shape if isinstance(src, Src) else ("foreign" if isinstance(src, str) else case["shapes"][0])
            if want_q and not has_q:
                res.violate("C11|%s|%s|unqualified|%s" % (case["k"], role, shape),
                            "column %s must be qualified (more than one row source in scope, or aliased source) but is bare" % t.value,
                            case=case, sql=sql)
            elif not want_q and has_q:
                res.violate("C11|%s|%s|qualified-but-single-source|%s" % (case["k"], role, shape),
                            "column %s is qualified although only one, un-aliased row source is in scope / the position must stay bare" % t.value,
                            case=case, sql=sql, qualifier=qual)
            elif want_q:
                disp = src.display() if isinstance(src, Src) else src
                if qual != disp:
                    res.violate("C11|%s|%s|wrong-qualifier|%s" % (case["k"], role, shape),
                                "column %s is qualified by %r, expected %r" % (t.value, qual, disp), case=case, sql=sql)
        if case["k"] == "correlated_self" and case["col"] == "same":
            quals = [toks[i - 2].value if (i >= 2 and toks[i - 1].kind == "OP" and toks[i - 1].text == "." and toks[i - 2].kind == "ID") else None
                     for i, t in enumerate(toks) if t.kind == "ID" and t.value == "e2__whr"
                     and not (i + 1 < len(toks) and toks[i + 1].kind == "OP" and toks[i + 1].text == ".")]
            if sorted(map(str, quals)) != ["e2", "emp"]:
                res.violate("C11|correlated_self|whr|unqualified|same-name", "the outer table's column in a self-correlated subquery is not "
                            "qualified by the outer table (qualifiers found: %s)" % quals, case=case, sql=sql)
        if case["k"] == "star":
            stars = [toks[i - 2].value if (i >= 2 and toks[i - 1].kind == "OP" and toks[i - 1].text == "." and toks[i - 2].kind == "ID") else None
                     for i, t in enumerate(toks) if t.kind == "OP" and t.text == "*"]
            # a schema / database qualifier in front of the name is not part of a column reference
            deep = [i for i, t in enumerate(toks) if t.kind == "OP" and t.text == "*" and i >= 4 and toks[i - 3].kind == "OP" and toks[i - 3].text == "."]
            if stars != case["_stars"] or deep:
                res.violate("C11|star|wrong-qualifier|%s" % "+".join(case["shapes"]), "table.* references are qualified %s (schema-prefixed: %s), expected %s"
                            % (stars, bool(deep), case["_stars"]), case={k_: v_ for k_, v_ in case.items() if not k_.startswith("_")}, sql=sql)
        if case["k"] == "derived_sources":
            names = case.get("_names")
            for col in ("dsh__on", "dsh__sel", "dsh__whr"):
                quals = [toks[i - 2].value if (i >= 2 and toks[i - 1].kind == "OP" and toks[i - 1].text == "." and toks[i - 2].kind == "ID") else None
                         for i, t in enumerate(toks) if t.kind == "ID" and t.value == col]
                if quals != names:
                    res.violate("C11|derived_sources|%s|wrong-qualifier" % col.split("__")[1],
                                "references taken from two sources derived from one base query are qualified %s, expected %s" % (quals, names),
                                case={k_: v_ for k_, v_ in case.items() if not k_.startswith("_")}, sql=sql)
        # distinct row sources must be exposed under distinct names
        if case["k"] == "select" and not param:
            names = [s_.display() for s_ in _LAST_SRCS]
            if len(set(names)) != len(names):
                res.violate("C11|select|duplicate-source-name|%s" % "+".join(sorted(case["shapes"])),
                            "two row sources of the statement are exposed under the same name %s" % names, case=case, sql=sql)
        missing = set(exp) - seen
        if missing and not param:
            res.extra["columns_not_rendered"] = res.extra.get("columns_not_rendered", 0) + len(missing)
            res.extra.setdefault("columns_not_rendered_names", set()).update("%s:%s" % (case["k"], re.sub(r"^s\d", "s", m)) for m in missing)
    return res


def describe():
    return {
        "rule": "SELECT: 1..3 sources of 8 shapes combined by joins (ON / USING) or a FROM list, a field of every source in "
                "select / ON / WHERE / GROUP BY / HAVING / ORDER BY, optional foreign-table WHERE; correlated IN-subqueries; "
                "INSERT (columns, upsert target/assignments/WHERE, RETURNING), INSERT..SELECT, UPDATE, UPDATE..FROM, "
                "UPDATE..JOIN, DELETE, each with plain/aliased/schema-qualified target; x 6 dialects x {inline, parameterised}",
        "bound": {"quick": "complete for the stated menus", "thorough": "same"},
        "assumptions": ["reference model: qualified iff >1 row source in scope (joins, several FROM items, subquery first in FROM, "
                        "UPDATE..FROM/JOIN, foreign-table WHERE, upsert assignments where EXCLUDED is in scope) or the source is "
                        "aliased; INSERT columns, SET left-hand sides and USING columns stay bare",
                        "the expected qualifier is the alias if any, else the table name (never the schema)"],
    }
