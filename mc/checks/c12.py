"""C12 — aliases are emitted exactly once, where they define a name, for every term kind.

Bounded-exhaustive: every Term subclass found in the live modules (zoo) given an alias x defining positions
(select list, RETURNING, DISTINCT ON, VALUES row; FROM / JOIN for selectables) x operand positions (each operand
slot of every composite term, WHERE / HAVING / ON / GROUP BY / ORDER BY roots) x GROUP BY / ORDER BY by alias x
six dialects x {inline, parameterised}.  Token-level differential oracle: compared with the same statement built
with the un-aliased term, a defining position adds exactly the alias token (plus AS where the dialect uses it)
directly after the term; an operand position adds nothing.
"""
from __future__ import annotations

from mc.common import Result, h64
from mc import fp, zoo, prog
from mc.lexer import LexError, lex

from pypika_tortoise import Case, Field, Query, Table, Tuple
from pypika_tortoise import functions as FN
from pypika_tortoise import analytics as AN
from pypika_tortoise.enums import Order
from pypika_tortoise.terms import AggregateFunction, AnalyticFunction, Array, Bracket, Criterion, Function, Term, ValueWrapper

PROPERTY = "C12"
ALIAS = "al9x"

ZOO, _UN = zoo.term_zoo()
ZOO_BY = {n: (k, b) for n, k, b in ZOO}
# selectables are handled by the FROM/JOIN positions below and by C10; '*' takes no alias in SQL and an Index is an
# index-hint name, not an expression that can stand in a defining position
SKIP = {"QueryBuilder", "_SetOperation", "Star", "Index"}


def T():
    return Table("t")


def mk(name, aliased, how="as_", alias=None):
    n, b = ZOO_BY[name]
    flds = [T().field("c%d" % i) for i in range(max(n, 1))]
    if aliased and how == "ctor":
        return b(flds, alias=alias or ALIAS)  # the alias given to the constructor (alias=...) instead of as_()
    t = b(flds)
    if aliased:
        t = t.as_(alias or ALIAS)
    return t


def crit(x):
    """use x as the left operand of a comparison"""
    return x == 1


# position name -> (kind, fn(Q, x) -> statement) ; kind: "def" (alias must appear once, right after the term) or "op"
POS = {
    "select": ("def", lambda Q, x: Q.from_(T()).select(T().k, x)),
    "select_first": ("def", lambda Q, x: Q.from_(T()).select(x, T().k)),
    "insert_value": ("def", lambda Q, x: Q.into(T()).insert(1, x)),
    "where_root": ("op", lambda Q, x: Q.from_(T()).select(T().k).where(x)),
    "where_cmp_l": ("op", lambda Q, x: Q.from_(T()).select(T().k).where(x == 1)),
    "where_cmp_r": ("op", lambda Q, x: Q.from_(T()).select(T().k).where(T().k == x)),
    "having_cmp": ("op", lambda Q, x: Q.from_(T()).select(T().k).groupby(T().k).having(x > 1)),
    "on_cmp": ("op", lambda Q, x: Q.from_(T()).join(Table("u")).on((T().id == Table("u").id) & (x == 2)).select(T().k)),
    # a criterion-typed term (aliased) as a conjunct / the root of ON, WHERE, HAVING
    "on_conjunct": ("op", lambda Q, x: Q.from_(T()).join(Table("u")).on((T().id == Table("u").id) & x).select(T().k) if isinstance(x, Criterion) else None),
    "on_conjunct_first": ("op", lambda Q, x: Q.from_(T()).join(Table("u")).on(x & (T().id == Table("u").id)).select(T().k) if isinstance(x, Criterion) else None),
    "on_root": ("op", lambda Q, x: Q.from_(T()).join(Table("u")).on(x).select(T().k) if isinstance(x, Criterion) else None),
    "on_root_left_join_sub": ("op", lambda Q, x: (lambda s: Q.from_(T()).left_join(s).on(x).select(T().k))(Q.from_(Table("u")).select("id").as_("sj"))
                              if isinstance(x, Criterion) else None),
    "where_conjunct": ("op", lambda Q, x: Q.from_(T()).select(T().k).where((T().k == 1) & x) if isinstance(x, Criterion) else None),
    "having_root": ("op", lambda Q, x: Q.from_(T()).select(T().k).groupby(T().k).having(x) if isinstance(x, Criterion) else None),
    "update_join_on": ("op", lambda Q, x: Q.update(T()).join(Table("u")).on((T().id == Table("u").id) & (x == 2)).set(T().k, 1)),
    "update_from_where_cmp": ("op", lambda Q, x: Q.update(T()).from_(Table("u")).set(T().k, Table("u").k).where((T().id == Table("u").id) & (x == 1))),
    "update_from_where_root": ("op", lambda Q, x: Q.update(T()).from_(Table("u")).set(T().k, Table("u").k).where(x) if isinstance(x, Criterion) else None),
    "update_from_set_value": ("op", lambda Q, x: Q.update(T()).from_(Table("u")).set(T().k, x).where(T().id == Table("u").id)),
    "update_join_where_cmp": ("op", lambda Q, x: Q.update(T()).join(Table("u")).on(T().id == Table("u").id).set(T().k, 1).where(x == 1)),
    "update_join_on_root": ("op", lambda Q, x: Q.update(T()).join(Table("u")).on(x).set(T().k, 1) if isinstance(x, Criterion) else None),
    "delete_where_cmp": ("op", lambda Q, x: Q.from_(T()).delete().where(x == 1)),
    "insert_select_where": ("op", lambda Q, x: Q.into(Table("n")).from_(T()).select(T().k).where(x == 1)),
    "groupby_unrelated": ("op", lambda Q, x: Q.from_(T()).select(T().k).groupby(x)),
    "orderby_unrelated": ("op", lambda Q, x: Q.from_(T()).select(T().k).orderby(x)),
    "arith_l": ("op", lambda Q, x: Q.from_(T()).select((x + 1).as_("out"))),
    "arith_r": ("op", lambda Q, x: Q.from_(T()).select((T().k * x).as_("out"))),
    "neg": ("op", lambda Q, x: Q.from_(T()).select((-x).as_("out"))),
    "in_term": ("op", lambda Q, x: Q.from_(T()).select(T().k).where(x.isin([1, 2]))),
    "in_element": ("op", lambda Q, x: Q.from_(T()).select(T().k).where(T().k.isin([x, 2]))),
    "between_term": ("op", lambda Q, x: Q.from_(T()).select(T().k).where(x.between(1, 2))),
    "between_bound": ("op", lambda Q, x: Q.from_(T()).select(T().k).where(T().k.between(x, 2))),
    "isnull": ("op", lambda Q, x: Q.from_(T()).select(T().k).where(x.isnull())),
    "not": ("op", lambda Q, x: Q.from_(T()).select(T().k).where(~(x == 1))),
    "and_l": ("op", lambda Q, x: Q.from_(T()).select(T().k).where((x == 1) & (T().k == 2))),
    "case_when": ("op", lambda Q, x: Q.from_(T()).select(Case().when(x == 1, 2).else_(3).as_("out"))),
    "case_then": ("op", lambda Q, x: Q.from_(T()).select(Case().when(T().k == 1, x).else_(3).as_("out"))),
    "case_else": ("op", lambda Q, x: Q.from_(T()).select(Case().when(T().k == 1, 2).else_(x).as_("out"))),
    "func_arg": ("op", lambda Q, x: Q.from_(T()).select(FN.Coalesce(x, 0).as_("out"))),
    "agg_arg": ("op", lambda Q, x: Q.from_(T()).select(FN.Max(x).as_("out"))),
    "agg_filter": ("op", lambda Q, x: Q.from_(T()).select(AggregateFunction("SUM", T().k).filter(x == 1).as_("out"))),
    "over_partition": ("op", lambda Q, x: Q.from_(T()).select(AN.Sum(T().k).over(x).as_("out"))),
    "over_order": ("op", lambda Q, x: Q.from_(T()).select(AN.Sum(T().k).over(T().k).orderby(x).as_("out"))),
    "over_order_only": ("op", lambda Q, x: Q.from_(T()).select(AN.Rank().orderby(x).as_("out"))),
    "over_empty_order": ("op", lambda Q, x: Q.from_(T()).select(AN.Sum(T().k).over().orderby(x, order=Order.desc).as_("out"))),
    "over_order_rows": ("op", lambda Q, x: Q.from_(T()).select(AN.Sum(T().k).orderby(x).rows(AN.Preceding(1), AN.CURRENT_ROW).as_("out"))),
    "over_order_unaliased_fn": ("op", lambda Q, x: Q.from_(T()).select(AN.Rank().orderby(x), T().k)),
    "tuple_el": ("op", lambda Q, x: Q.from_(T()).select(T().k).where(Tuple(x, 1) == Tuple(2, 3))),
    "select_in_select_arith": ("op", lambda Q, x: Q.from_(T()).select(T().k, (x + T().k).as_("out"))),
    "set_value": ("op", lambda Q, x: Q.update(T()).set(T().k, x)),
    "sel_cmp": ("op", lambda Q, x: Q.from_(T()).select((x == 1).as_("out"))),
    "sel_cmp_r": ("op", lambda Q, x: Q.from_(T()).select((T().k < x).as_("out"))),
    "sel_in": ("op", lambda Q, x: Q.from_(T()).select(x.isin([1, 2]).as_("out"))),
    "sel_in_el": ("op", lambda Q, x: Q.from_(T()).select(T().k.isin([x, 2]).as_("out"))),
    "sel_between": ("op", lambda Q, x: Q.from_(T()).select(T().k.between(x, 2).as_("out"))),
    "sel_isnull": ("op", lambda Q, x: Q.from_(T()).select(x.isnull().as_("out"))),
    "sel_not": ("op", lambda Q, x: Q.from_(T()).select((~(x == 1)).as_("out"))),
    "sel_and": ("op", lambda Q, x: Q.from_(T()).select(((x == 1) & (T().k == 2)).as_("out"))),
    "sel_tuple": ("op", lambda Q, x: Q.from_(T()).select(Tuple(x, 1).as_("out"))),
    "sel_extract": ("op", lambda Q, x: Q.from_(T()).select(FN.Extract("YEAR", x).as_("out"))),
    "sel_cast": ("op", lambda Q, x: Q.from_(T()).select(FN.Cast(x, "INT").as_("out"))),
    "select_nested_func": ("op", lambda Q, x: Q.from_(T()).select(FN.Coalesce(FN.Max(x), 0).as_("out"))),
    # the same term selected a second time under another alias; an aliased column that is also an INSERT target column
    "select_after_same_term_other_alias": ("def", lambda Q, x: Q.from_(T()).select(x.as_("other9"), x)),
    "select_before_same_term_other_alias": ("def", lambda Q, x: Q.from_(T()).select(x).select(x.as_("other9"))),
    "insert_columns_and_select": ("def", lambda Q, x: Q.into(T()).columns(x).from_(T()).select(x) if type(x) is Field else None),
    # NOT directly over the (aliased) criterion
    "where_not_direct": ("op", lambda Q, x: Q.from_(T()).select(T().k).where(~x) if isinstance(x, Criterion) else None),
    "select_not_direct": ("op", lambda Q, x: Q.from_(T()).select((~x).as_("out")) if isinstance(x, Criterion) else None),
    "select_not_direct_unaliased": ("op", lambda Q, x: Q.from_(T()).select(~x, T().k) if isinstance(x, Criterion) else None),
    "case_when_not_direct": ("op", lambda Q, x: Q.from_(T()).select(Case().when(~x, 1).else_(0).as_("out")) if isinstance(x, Criterion) else None),
    # the enclosing select item carries no alias of its own
    "sel_tuple_unaliased": ("op", lambda Q, x: Q.from_(T()).select(Tuple(x, 1), T().k)),
    "sel_bracket_unaliased": ("op", lambda Q, x: Q.from_(T()).select(Bracket(x), T().k)),
    "sel_array_unaliased": ("op", lambda Q, x: Q.from_(T()).select(Array(x, 1), T().k)),
    "sel_func_unaliased": ("op", lambda Q, x: Q.from_(T()).select(FN.Coalesce(x, 0), T().k)),
    "sel_arith_unaliased": ("op", lambda Q, x: Q.from_(T()).select(x + 1, T().k)),
    "sel_arith_r_unaliased": ("op", lambda Q, x: Q.from_(T()).select(T().k, 2 * x)),
    "sel_cmp_unaliased": ("op", lambda Q, x: Q.from_(T()).select(x == 1, T().k)),
    "sel_case_unaliased": ("op", lambda Q, x: Q.from_(T()).select(Case().when(T().k == 1, x).else_(3), T().k)),
    "sel_agg_unaliased": ("op", lambda Q, x: Q.from_(T()).select(FN.Max(x), T().k)),
    "sel_over_unaliased": ("op", lambda Q, x: Q.from_(T()).select(AN.Sum(T().k).over(x), T().k)),
    "insert_tuple_unaliased": ("op", lambda Q, x: Q.into(T()).insert(1, Tuple(x, 2))),
    # the third / fourth slot of n-ary constructs (the first two are covered above)
    "case_when3": ("op", lambda Q, x: Q.from_(T()).select(Case().when(T().k == 1, 2).when(T().k == 2, 3).when(x == 1, 4).else_(5).as_("out"))),
    "case_then3": ("op", lambda Q, x: Q.from_(T()).select(Case().when(T().k == 1, 2).when(T().k == 2, 3).when(T().k == 3, x).else_(5).as_("out"))),
    "case_then4": ("op", lambda Q, x: Q.from_(T()).select(Case().when(T().k == 1, 2).when(T().k == 2, 3).when(T().k == 3, 4).when(T().k == 4, x).as_("out"))),
    "case_then3_unaliased": ("op", lambda Q, x: Q.from_(T()).select(Case().when(T().k == 1, 2).when(T().k == 2, 3).when(T().k == 3, x), T().k)),
    "case_else_after3": ("op", lambda Q, x: Q.from_(T()).select(Case().when(T().k == 1, 2).when(T().k == 2, 3).when(T().k == 3, 4).else_(x).as_("out"))),
    "func_arg3": ("op", lambda Q, x: Q.from_(T()).select(FN.Coalesce(T().k, 0, x).as_("out"))),
    "func_arg4_unaliased": ("op", lambda Q, x: Q.from_(T()).select(FN.Coalesce(T().k, 0, 1, x), T().k)),
    "in_element3": ("op", lambda Q, x: Q.from_(T()).select(T().k).where(T().k.isin([1, 2, x, 4]))),
    "tuple_el3": ("op", lambda Q, x: Q.from_(T()).select(Tuple(1, 2, x), T().k)),
    "array_el3": ("op", lambda Q, x: Q.from_(T()).select(Array(1, 2, x), T().k)),
    "and_3rd": ("op", lambda Q, x: Q.from_(T()).select(T().k).where((T().k == 1) & (T().k == 2) & (x == 3))),
    "where_call3": ("op", lambda Q, x: Q.from_(T()).select(T().k).where(T().k == 1).where(T().k == 2).where(x == 3)),
    "arith_3rd": ("op", lambda Q, x: Q.from_(T()).select((T().k + 1 + x).as_("out"))),
    "over_partition3": ("op", lambda Q, x: Q.from_(T()).select(AN.Sum(T().k).over(T().k, T().j, x).as_("out"))),
    "over_order3": ("op", lambda Q, x: Q.from_(T()).select(AN.Sum(T().k).over(T().k).orderby(T().k).orderby(T().j).orderby(x).as_("out"))),
    "set_value3": ("op", lambda Q, x: Q.update(T()).set(T().k, 1).set(T().j, 2).set(T().i, x)),
    "insert_value3": ("op", lambda Q, x: Q.into(T()).insert(1, 2, x + 0)),
    "join3_on": ("op", lambda Q, x: Q.from_(T()).join(Table("u1")).on(T().k == Table("u1").k).join(Table("u2")).on(T().k == Table("u2").k)
                 .join(Table("u3")).on((T().k == Table("u3").k) & (x == 1)).select(T().k)),
}
PG_POS = {
    "returning": ("def", lambda Q, x: Q.into(T()).insert(1).returning(x)),
    "distinct_on": ("def_inside", lambda Q, x: Q.from_(T()).distinct_on(x).select(T().k)),
}
# GROUP BY / ORDER BY by the same aliased term as in the select list: the alias may be referenced, but only if the
# select list actually defines it
REF_POS = {
    "groupby_same": lambda Q, x, x2: Q.from_(T()).select(x, FN.Count("*").as_("n")).groupby(x2),
    "orderby_same": lambda Q, x, x2: Q.from_(T()).select(x).orderby(x2),
    # the aliased item is not the first aliased item of the select list
    "groupby_same_second": lambda Q, x, x2: Q.from_(T()).select(FN.Count("*").as_("n"), (T().k + 7).as_("other9"), x).groupby(x2),
    "orderby_same_second": lambda Q, x, x2: Q.from_(T()).select((T().k + 7).as_("other9"), x).orderby(x2),
    "setop_orderby_same": lambda Q, x, x2: Q.from_(T()).select(x).union(Q.from_(Table("u")).select(Table("u").k)).orderby(x2),
    # the alias is defined only by the SECOND operand: result columns are named by the first, so it is undefined
    # the select list lost the item that defined the alias (table.* / * replaces the table's columns)
    "orderby_after_table_star": lambda Q, x, x2: Q.from_(T()).select(x).select(T().star).orderby(x2),
    "groupby_after_table_star": lambda Q, x, x2: Q.from_(T()).select(x).select(T().star).groupby(x2),
    "orderby_after_star": lambda Q, x, x2: Q.from_(T()).select(x).select("*").orderby(x2),
    "orderby_never_selected": lambda Q, x, x2: Q.from_(T()).select(T().k).orderby(x2),
    "groupby_never_selected": lambda Q, x, x2: Q.from_(T()).select(T().k).groupby(x2),
    # the same, with the statement rendered before the select list changes (and rendered twice)
    "orderby_rendered_then_star": lambda Q, x, x2: _r(Q.from_(T()).select(x).orderby(x2)).select("*"),
    "groupby_rendered_then_table_star": lambda Q, x, x2: _r(Q.from_(T()).select(x).groupby(x2)).select(T().star),
    "orderby_rendered_then_table_star": lambda Q, x, x2: _r(Q.from_(T()).select(x).orderby(x2)).select(T().star),
    "orderby_same_rendered_then_second": lambda Q, x, x2: _r(Q.from_(T()).select(x).orderby(x2)).select((T().k + 7).as_("other9")),
    "groupby_never_selected_rendered_then_selected": lambda Q, x, x2: _r(Q.from_(T()).select(T().k).groupby(x2)).select(x),
    "setop_orderby_alias_of_later_operand": lambda Q, x, x2: Q.from_(T()).select(T().k).union(Q.from_(Table("u")).select(x)).orderby(x2),
}


def _r(q):
    """render (plain and parameterised) and hand the statement back"""
    q.get_sql()
    q.get_parameterized_sql()
    str(q)
    return q


def chunks(tier, seed):
    out = []
    for name in ZOO_BY:
        if name in SKIP:
            continue
        out.append({"term": name})
    out.append({"term": "@selectables"})
    return out


def expand(chunk):
    name = chunk["term"]
    if name == "@selectables":
        for d in fp.CTX:
            for kind in ("table", "subquery", "setop", "aliased_query"):
                for pos in ("from", "join", "where_in", "select_item", "cmp_operand", "update_from", "update_join", "insert_select_from", "delete_in_from",
                            "func_arg_in_select", "arith_in_select", "case_then_in_select", "tuple_in_select", "func_arg_in_where", "orderby_operand",
                            "setop_orderby_unselected"):
                    yield {"d": d, "sel": kind, "pos": pos}
                    # the row source built through another dialect's class than the statement it is embedded in
                    if kind in ("subquery", "setop"):
                        yield {"d": d, "sel": kind, "pos": pos, "other_cls": True}
        return
    for d in fp.CTX:
        for pos in POS:
            yield {"d": d, "term": name, "pos": pos}
        if d == "postgresql":
            for pos in PG_POS:
                yield {"d": d, "term": name, "pos": pos}
        for pos in REF_POS:
            yield {"d": d, "term": name, "pos": pos, "ref": True}
        if getattr(ZOO_BY[name][1], "takes_alias", False):
            for pos in ("select", "select_first", "where_cmp_l", "func_arg", "orderby_unrelated"):
                yield {"d": d, "term": name, "pos": pos, "how": "ctor"}
        n_slots = max(ZOO_BY[name][0], 1)
        for i in range(n_slots):
            for pos in ("select", "select_first", "insert_value"):
                yield {"d": d, "term": name, "pos": pos, "alias_as": "c%d" % i}


def render_both(o, d):
    out = []
    for param in (False, True):
        try:
            sql, _ = prog.render(o, d, param=param)
        except Exception as e:
            sql = "!" + type(e).__name__
        out.append(sql)
    return out


def cls_of(name, term):
    """class in the MRO that defines the renderer (so one defect is one finding, not seventy)"""
    for c in type(term).__mro__:
        if "get_sql" in c.__dict__ or "get_function_sql" in c.__dict__:
            return c.__name__
    return type(term).__name__


def alias_positions(toks):
    return [i for i, t in enumerate(toks) if t.kind == "ID" and t.value == ALIAS]


def strip_alias(toks, d):
    """token list without the alias token (and a directly preceding AS)"""
    out = []
    for t in toks:
        if t.kind == "ID" and t.value == ALIAS:
            if out and out[-1][0] == "WORD" and out[-1][1] == "AS":
                out.pop()
            continue
        out.append((t.kind, t.value))
    return out


def run_selectable(case, res):
    d, kind, pos = case["d"], case["sel"], case["pos"]
    Q = fp.QCLS[d]
    lexd = "sqlite" if d == "generic" else d
    from pypika_tortoise import AliasedQuery

    QI = Q
    if case.get("other_cls"):
        QI = fp.QCLS["generic"] if d == "mysql" else fp.QCLS["mysql"]

    def mk_sel(aliased):
        if kind == "table":
            return Table("s1", alias=ALIAS if aliased else None)
        if kind == "subquery":
            q = QI.from_(Table("s1")).select("a")
            return q.as_(ALIAS) if aliased else q.as_("plain0")
        if kind == "setop":
            q = QI.from_(Table("s1")).select("a").union(QI.from_(Table("s2")).select("a"))
            return q.as_(ALIAS) if aliased else q.as_("plain0")
        q = AliasedQuery(ALIAS if aliased else "plain0")
        return q

    def stmt(s):
        if pos == "from":
            return Q.from_(s).select(T().k if kind == "table" else "*")
        if pos == "join":
            return Q.from_(T()).join(s).on(T().id == s.a).select(T().k)
        if pos == "update_from":
            return Q.update(T()).from_(s).set(T().k, 1).where(T().id == 1)
        if pos == "update_join":
            return Q.update(T()).join(s).on(T().id == s.a).set(T().k, 1)
        if pos == "insert_select_from":
            return Q.into(T()).columns("k").from_(s).select("a")
        if pos == "delete_in_from":
            return Q.from_(T()).delete().where(T().k.isin(Q.from_(s).select("a")))
        if pos == "setop_orderby_unselected":
            # ORDER BY of a set operation by an aliased term that the select list does not define: the expression is written
            if kind != "table":
                return None
            return Q.from_(T()).select(T().k).union(Q.from_(Table("u")).select(Table("u").k)).orderby(T().j.as_(ALIAS))
        if kind in ("table", "aliased_query"):
            return None
        if pos == "func_arg_in_select":
            return Q.from_(T()).select(FN.Coalesce(s, 0).as_("out"), T().k)
        if pos == "arith_in_select":
            return Q.from_(T()).select((T().k + s).as_("out"))
        if pos == "case_then_in_select":
            return Q.from_(T()).select(Case().when(T().k == 1, s).else_(0).as_("out"))
        if pos == "tuple_in_select":
            return Q.from_(T()).select(Tuple(s, 1).as_("out"))
        if pos == "func_arg_in_where":
            return Q.from_(T()).select(T().k).where(FN.Coalesce(s, 0) > 1)
        if pos == "orderby_operand":
            return Q.from_(T()).select(T().k).orderby(FN.Coalesce(s, 0))
        if pos == "where_in":
            return Q.from_(T()).select(T().k).where(T().k.isin(s))
        if pos == "select_item":
            return Q.from_(T()).select(T().k, s)
        return Q.from_(T()).select(T().k).where((T().k == s) & (T().k > 0))

    try:
        a = stmt(mk_sel(True))
    except Exception as e:
        res.nontrivial = 1
        res.violate("C12|%s|%s|build-raises|%s" % (kind, pos, type(e).__name__), "a valid statement of the menu was rejected while it was built",
                    dialect=d, error=str(e)[:200])
        return
    if a is None:
        return
    res.nontrivial = 1
    for sql in render_both(a, d):
        res.transitions += 1
        if sql.startswith("!"):
            res.violate("C12|%s|%s|render-raises|%s" % (kind, pos, sql[1:]), "rendering a valid statement of the menu raised", dialect=d)
            continue
        try:
            toks = lex(sql, lexd)
        except LexError as e:
            res.violate("C12|%s|%s|unlexable" % (kind, pos), "the statement does not lex in its dialect", dialect=d, sql=sql, error=str(e))
            continue
        n = len(alias_positions(toks))
        # qualifiers of fields of the source also carry the alias: count only tokens not followed by '.'
        defs = [i for i in alias_positions(toks) if not (i + 1 < len(toks) and toks[i + 1].kind == "OP" and toks[i + 1].text == ".")]
        want = 1 if pos in ("from", "join", "select_item", "update_from", "update_join", "insert_select_from", "delete_in_from") else 0
        if kind == "aliased_query":
            want = None  # a CTE reference renders its name, not an alias
        if want is not None and len(defs) != want:
            res.violate("C12|%s|%s|%s" % (kind, pos, "alias-missing" if len(defs) < want else "alias-unexpected"),
                        "selectable alias emitted %d times at position %s (expected %d)" % (len(defs), pos, want), dialect=d, sql=sql)


def run_alias_named(case, res):
    """the alias is spelled like one of the term's own columns (SELECT NOT "c0" "c0"): it must still be emitted, exactly
    once, directly after the item"""
    d, name, pos, al = case["d"], case["term"], case["pos"], case["alias_as"]
    Q = fp.QCLS[d]
    lexd = "sqlite" if d == "generic" else d
    kind, fn = POS[pos]
    try:
        a = fn(Q, mk(name, True, alias=al))
        b = fn(Q, mk(name, False))
    except Exception as e:
        if name in _REJECTED_AS_VALUE and pos == "insert_value":
            return
        res.nontrivial = 1
        res.violate("C12|%s|build-raises|%s" % (pos, type(e).__name__), "a valid statement of the menu was rejected while it was built",
                    dialect=d, term=name, pos=pos, error=str(e)[:200])
        return
    res.nontrivial = 1
    term = mk(name, True, alias=al)
    c = cls_of(name, term)
    for sa, sb in zip(render_both(a, d), render_both(b, d)):
        res.transitions += 1
        if sa.startswith("!") or sb.startswith("!"):
            continue
        try:
            ta, tb = [(t.kind, t.value) for t in lex(sa, lexd)], [(t.kind, t.value) for t in lex(sb, lexd)]
        except LexError:
            continue
        ok = False
        if len(ta) == len(tb) + 1:
            i = 0
            while i < len(tb) and ta[i] == tb[i]:
                i += 1
            # several equal tokens may precede the insertion point: try every split up to the first difference
            for j in range(i, -1, -1):
                if ta[j] == ("ID", al) and ta[:j] == tb[:j] and ta[j + 1:] == tb[j:]:
                    nxt = ta[j + 1] if j + 1 < len(ta) else None
                    if nxt is None or nxt in (("OP", ","), ("OP", ")")) or (nxt[0] == "WORD" and nxt[1] in ("FROM", "ON", "RETURNING")):
                        ok = True
                        break
        if not ok:
            sym = "alias-dropped" if ta == tb else "alias-misplaced"
            res.violate("C12|%s|defining|%s|named-like-column" % (c, sym), "an alias spelled like one of the term's own columns is not emitted "
                        "exactly once directly after the item (%s)" % pos, dialect=d, term=name, position=pos, alias=al, sql=sa, without=sb)


_REJECTED_AS_VALUE = set()


def run_case(case):
    res = Result()
    if "sel" in case:
        run_selectable(case, res)
        return res
    if "alias_as" in case:
        run_alias_named(case, res)
        return res
    d, name, pos = case["d"], case["term"], case["pos"]
    Q = fp.QCLS[d]
    lexd = "sqlite" if d == "generic" else d
    if case.get("ref"):
        fn = REF_POS[pos]
        try:
            a = fn(Q, mk(name, True), mk(name, True))
        except Exception as e:
            res.nontrivial = 1
            res.violate("C12|%s|build-raises|%s" % (pos, type(e).__name__), "a valid statement of the menu was rejected while it was built",
                        dialect=d, term=name, pos=pos, error=str(e)[:200])
            return res
        res.nontrivial = 1
        term = mk(name, True)
        # the same with an alias that contains the quote characters: definition and reference are the same identifier
        if d != "oracle" and pos in ("groupby_same", "orderby_same", "groupby_same_second", "orderby_same_second", "setop_orderby_same"):
            # (not for Oracle, whose identifiers cannot contain a double quote at all)
            qa = 'zq"9`x'
            try:
                aq = fn(Q, mk(name, True, alias=qa), mk(name, True, alias=qa))
                for sqlq in render_both(aq, d):
                    res.transitions += 1
                    if sqlq.startswith("!"):
                        continue
                    try:
                        idq = [t.value for t in lex(sqlq, lexd) if t.kind == "ID" and t.value.startswith("zq")]
                    except LexError as e:
                        if d == "oracle":
                            break  # (an Oracle identifier cannot contain a double quote at all)
                        res.violate("C12|%s|%s|quoted-alias-unlexable" % (cls_of(name, term), pos), "with an alias containing quote characters the "
                                    "statement does not lex", dialect=d, term=name, sql=sqlq, error=str(e))
                        break
                    if any(v != qa for v in idq):
                        res.violate("C12|%s|%s|quoted-alias-reference-differs" % (cls_of(name, term), pos), "the alias is referenced under another "
                                    "spelling than it is defined", dialect=d, term=name, sql=sqlq, ids=idq)
                        break
            except Exception:
                pass
        for sql in render_both(a, d):
            res.transitions += 1
            if sql.startswith("!"):
                continue
            try:
                toks = lex(sql, lexd)
            except LexError:
                continue
            ap = alias_positions(toks)
            # split at GROUP BY / ORDER BY: references after it, definitions before it
            kw = "GROUP" if pos.startswith("groupby") else "ORDER"
            cut = max([i for i, t in enumerate(toks) if t.kind == "WORD" and t.value == kw] or [len(toks)])
            first_end = cut
            if pos.startswith("setop"):
                # only the first operand names the result columns of a compound select
                first_end = min([i for i, t in enumerate(toks) if t.kind == "WORD" and t.value in ("UNION", "INTERSECT", "EXCEPT", "MINUS")] or [cut])
            defs = [i for i in ap if i < first_end]
            # a *reference* is a bare alias token standing for the whole item (directly after BY or a comma); an alias
            # printed after the item's own expression is the operand-printing defect, reported at the operand positions
            refs = [i for i in ap if i > cut and ((toks[i - 1].kind == "WORD" and toks[i - 1].value == "BY")
                                                  or (toks[i - 1].kind == "OP" and toks[i - 1].text == ","))]
            if pos.endswith("_second") and not refs and not sql.startswith("!") and not any(i > cut for i in ap):
                # the dialect prints the expression instead of the alias (SQL Server / Oracle GROUP BY): it must be this item's
                # expression, i.e. the statement grouped / ordered by the un-aliased term
                try:
                    plain = prog.render(REF_POS[pos](Q, mk(name, True), mk(name, False)), d, param=False)[0]
                except Exception:
                    plain = None
                if plain is not None and "?" not in sql and "%s" not in sql and "$1" not in sql and sql != plain:
                    res.violate("C12|%s|%s|reference-resolved-to-other-item" % (cls_of(name, term), pos),
                                "%s BY of an aliased select item prints another item's expression" % kw, dialect=d, term=name, sql=sql, expected=plain)
            if refs and not defs:
                res.violate("C12|%s|%s|reference-to-undefined-alias" % (cls_of(name, term), pos),
                            "%s BY names the alias although the select list does not define it" % kw, dialect=d, term=name, sql=sql)
            if len(defs) > 1:
                res.violate("C12|%s|select|alias-repeated" % cls_of(name, term), "alias emitted more than once in the select list",
                            dialect=d, term=name, sql=sql)
        return res
    kind, fn = POS.get(pos) or PG_POS[pos]
    how = case.get("how", "as_")
    try:
        a = fn(Q, mk(name, True, how=how))
        b = fn(Q, mk(name, False))
        if a is None:
            return res  # position takes criteria only
    except Exception as e:
        if (pos, type(e).__name__) in (("returning", "QueryException"),):  # RETURNING accepts columns of the target and constants only
            res.extra["disabled"] = 1
            res.extra.setdefault("disabled_kinds", set()).add("%s:%s" % (pos, type(e).__name__))
            return res
        res.nontrivial = 1
        res.violate("C12|%s|build-raises|%s" % (pos, type(e).__name__), "a valid statement of the menu was rejected while it was built",
                    dialect=d, term=name, pos=pos, error=str(e)[:200])
        return res
    res.nontrivial = 1
    term = mk(name, True)
    c = cls_of(name, term)
    res.states.append(h64(repr((name, pos, how))))
    if kind != "op" and hasattr(a, "replace_table"):
        # replacing a table that does not occur in the statement changes nothing - in particular no alias
        try:
            a2 = a.replace_table(Table("zz9"), Table("yy9"))
            r1, r2 = render_both(a, d), render_both(a2, d)
        except Exception as e:
            r1, r2 = None, "!" + type(e).__name__
        res.transitions += 1
        if r1 != r2:
            res.violate("C12|%s|defining|changed-by-unrelated-replace_table" % c, "replace_table of a table that does not occur changes the statement (%s)" % pos,
                        dialect=d, term=name, position=pos, before=r1, after=r2)
    for (sa, sb), mode in zip(zip(render_both(a, d), render_both(b, d)), ("inline", "param")):
        res.transitions += 2
        res.outcomes.append(h64(sa))
        if sa.startswith("!") or sb.startswith("!"):
            if sa != sb:
                res.violate("C12|%s|%s|raises" % (c, pos), "rendering raises only with / only without the alias", dialect=d, term=name, a=sa, b=sb)
            continue
        try:
            ta, tb = lex(sa, lexd), lex(sb, lexd)
        except LexError as e:
            res.violate("C12|%s|%s|unlexable" % (c, pos), "statement does not lex", dialect=d, term=name, sql=sa, error=str(e))
            continue
        ap = alias_positions(ta)
        if kind == "op":
            if ap:
                res.violate("C12|%s|operand|alias-in-operand" % c, "the alias is printed although the term is an operand (%s)" % pos,
                            dialect=d, term=name, position=pos, sql=sa, mode=mode)
            elif [(t.kind, t.value) for t in ta] != [(t.kind, t.value) for t in tb]:
                res.violate("C12|%s|operand|alias-changes-text" % c, "giving the operand an alias changes the statement (%s)" % pos,
                            dialect=d, term=name, position=pos, sql=sa, without=sb, mode=mode)
        else:
            if len(ap) == 0:
                res.violate("C12|%s|defining|alias-dropped" % c, "the alias is not emitted in a defining position (%s)" % pos,
                            dialect=d, term=name, position=pos, sql=sa, mode=mode)
                continue
            if len(ap) > 1:
                res.violate("C12|%s|defining|alias-repeated" % c, "the alias is emitted %d times (%s)" % (len(ap), pos),
                            dialect=d, term=name, position=pos, sql=sa, mode=mode)
                continue
            if strip_alias(ta, d) != [(t.kind, t.value) for t in tb]:
                res.violate("C12|%s|defining|alias-changes-text" % c, "beyond the alias token the statement text changes (%s)" % pos,
                            dialect=d, term=name, position=pos, sql=sa, without=sb, mode=mode)
                continue
            # directly after the term: the token after the alias closes the item
            i = ap[0]
            nxt = ta[i + 1] if i + 1 < len(ta) else None
            ok = nxt is None or (nxt.kind == "OP" and nxt.text in (",", ")")) or (nxt.kind == "WORD" and nxt.value in ("FROM", "ON", "RETURNING"))
            if kind == "def" and not ok:
                res.violate("C12|%s|defining|alias-misplaced" % c, "the alias does not directly follow the item (%s)" % pos,
                            dialect=d, term=name, position=pos, sql=sa, mode=mode)
    return res


def describe():
    return {
        "rule": "terms = one instance of every Term subclass found by introspection (115 factories) with alias via as_(); "
                "positions = 3 defining (select list first/last, VALUES row; PostgreSQL: RETURNING, DISTINCT ON) + 29 operand "
                "positions (clause roots and each operand slot of comparison, arithmetic, unary minus, IN, BETWEEN, IS NULL, NOT, "
                "AND, CASE when/then/else, function/aggregate arguments, FILTER, OVER partition/order, tuple, SET value) + 3 "
                "alias-reference positions (GROUP BY, ORDER BY, set-operation ORDER BY by the same aliased term); selectables "
                "(table, subquery, set operation, CTE reference) at FROM/JOIN/IN/select-item/comparison; x 6 dialects x {inline, "
                "parameterised}",
        "bound": {"quick": "as described (complete)", "thorough": "same"},
        "assumptions": ["signatures name the class in the MRO that defines the renderer",
                        "the alias is a unique identifier, so alias tokens can be counted in the token stream"],
    }
