"""C13 — statements are well-formed and independent of the order of commuting calls.

Explicit-state exploration of builder call orders: for every statement kind and dialect, every multiset of
clause-setting calls of size <= 3 (thorough <= 4) from the alphabet, and *all linear extensions* of the dependency
partial order (entry call first; calls of the same clause family keep their relative order; everything else free).
Oracles: (1) every extension renders the same SQL / parameter list; (2) clause skeleton: clause keywords at
bracket depth 0 at most once and in the dialect's grammatical order, brackets balanced, no empty clause body;
(3) an incomplete builder renders ''; (4) SQLite accepts SQLite-dialect statements (DDL included).
"""
from __future__ import annotations

import itertools
import json
import re
import sqlite3

from mc.common import Result, h64
from mc import fp, prog
from mc.lexer import LexError, lex

PROPERTY = "C13"

T, U, V = ["t", "t"], ["t", "u"], ["t", "v"]
TI = ["t", "ti"]  # two-column table for INSERT ... VALUES (1,2)


def f(k, c):
    return ["f", k, c]


def raw(v):
    return ["raw", v]


# (family, call) ; family decides which calls must keep their relative order
SELECT_ALPHA = [
    ("select", ["select", [f("t", "a")]]),
    ("select", ["select", [["as", f("t", "b"), "bb"]]]),
    ("select", ["select", [["agg", "COUNT", f("t", "id")]]]),
    ("where", ["where", ["cmp", ">", f("t", "a"), raw(1)]]),
    ("where", ["where", ["cmp", "<", f("t", "b"), raw(5)]]),
    ("where", ["where", ["cmp", "=", f("u", "x"), raw(7)]]),  # refers to u: joined or foreign, depending on the multiset
    ("join", ["join", "inner", U, ["on", ["cmp", "=", f("t", "id"), f("u", "tid")]]]),
    ("join", ["join", "left", V, ["on", ["cmp", "=", f("t", "id"), f("v", "id")]]]),
    ("group", ["groupby", [f("t", "a")]]),
    ("group", ["groupby", [["as", f("t", "b"), "bb"]]]),
    ("having", ["having", ["cmp", ">", ["agg", "COUNT", f("t", "id")], raw(0)]]),
    ("order", ["orderby", [f("t", "a")], "asc"]),
    ("order", ["orderby", [["as", f("t", "b"), "bb"]], "desc"]),
    ("limit", ["limit", 3]),
    ("offset", ["offset", 2]),
    ("distinct", ["distinct"]),
    ("force_index", ["force_index", ["i1"]]),
    ("use_index", ["use_index", ["i2"]]),
    ("for_update", ["for_update", {}]),
    ("with", ["with", "c1", {"calls": [["from", V], ["select", [f("v", "id")]]]}]),
    ("prewhere", ["prewhere", ["cmp", "=", f("t", "a"), raw(0)]]),
    ("prewhere", ["prewhere", ["cmp", "<>", f("t", "b"), raw(11)]]),
    ("group", ["with_totals"]),
    ("from2", ["from", U]),
    ("group", ["rollup", [f("t", "s")]]),  # (before the next grouping call: rollup, groupby, rollup is a possible sequence)
    # columns given by name (bound to the statement's first FROM table whatever is called in between)
    ("group", ["groupby", [["name", "k"]]]),
    ("order", ["orderby", [["name", "k"]], "asc"]),
    ("select", ["select", [["name", "k"]]]),
    # ROLLUP (standard and MySQL flavour) among the grouping calls
    ("group", ["rollup", [f("t", "id")]]),
    ("group", ["rollup", [f("t", "b")], {"vendor": "mysql"}]),
    # open-ended slices
    ("offset", ["slice", 4, None]),
    ("limit", ["slice", None, 6]),
    # SQL Server only
    ("top", ["top", 5]),
    ("limit", ["fetch_next", 4]),
    # the same call a second time (equal arguments; one shared object in shared mode): items and conjuncts accumulate
    ("select", ["select", [f("t", "a")]]),
    ("where", ["where", ["cmp", ">", f("t", "a"), raw(1)]]),
    ("having", ["having", ["cmp", ">", ["agg", "COUNT", f("t", "id")], raw(0)]]),
    # a negative constant right of a minus (two signs must not fuse into a comment opener that swallows the rest)
    ("select", ["select", [["as", ["arith", "*", ["arith", "-", f("t", "a"), raw(-1)], raw(2)], "d"]]]),
    ("where", ["where", ["cmp", ">", ["arith", "-", f("t", "b"), raw(-2.5)], raw(0)]]),
    # texts that begin and end with the quote character of their position
    ("where", ["where", ["cmp", "=", f("t", "s"), raw("'x' y'")]]),
    ("select", ["select", [["as", f("t", "a"), '"p"q"']]]),
    ("select", ["select", [["as", f("t", "b"), "`p`q`"]]]),
]
INSERT_ALPHA = [
    ("columns", ["columns", ["a", "b"]]),
    ("values", ["insert", [raw(1), raw(2)]]),
    ("values", ["insert", [raw(3), raw("x")]]),
    ("values", ["insert", [raw(4), raw("'x' y'")]]),
    ("conflict", ["on_conflict", ["a"]]),
    ("conflict", ["do_update", "b", raw(9)]),
    ("conflict", ["do_nothing"]),
    ("conflict", ["where", ["cmp", ">", f("ti", "b"), raw(0)]]),
    ("returning", ["returning", [["name", "id"]]]),
    ("with", ["with", "c1", {"calls": [["from", V], ["select", [f("v", "id")]]]}]),
]
INSERT_SELECT_ALPHA = [
    ("from", ["from", U]),
    ("select", ["select", [f("u", "x")]]),
    ("where", ["where", ["cmp", "=", f("u", "y"), raw(3)]]),
    ("order", ["orderby", [f("u", "x")], "asc"]),
    ("limit", ["limit", 4]),
    ("conflict", ["on_conflict", ["a"]]),
    ("conflict", ["do_nothing"]),
    ("conflict", ["do_update", "a", raw(1)]),
]
UPDATE_ALPHA = [
    ("set", ["set", f("t", "a"), raw(1)]),
    ("set", ["set", "b", ["arith", "+", f("t", "b"), raw(2)]]),
    ("set", ["set", "s", ["arith", "-", f("t", "b"), raw(-1)]]),
    ("where", ["where", ["cmp", "=", f("t", "id"), raw(3)]]),
    ("where", ["where", ["cmp", ">", f("t", "a"), raw(0)]]),
    ("where", ["where", ["cmp", "=", f("t", "s"), raw("'x' y'")]]),
    ("from", ["from", U]),
    ("join", ["join", "inner", V, ["on", ["cmp", "=", f("t", "id"), f("v", "id")]]]),
    ("order", ["orderby", [f("t", "a")], "asc"]),
    ("limit", ["limit", 5]),
    ("returning", ["returning", [f("t", "id")]]),
    ("with", ["with", "c1", {"calls": [["from", V], ["select", [f("v", "id")]]]}]),
]
DELETE_ALPHA = [
    ("where", ["where", ["cmp", "=", f("t", "a"), raw(1)]]),
    ("where", ["where", ["cmp", "<", f("t", "b"), raw(2)]]),
    ("where", ["where", ["cmp", "=", f("zz", "k"), raw(3)]]),  # foreign table
    ("returning", ["returning", [["name", "id"]]]),
    ("with", ["with", "c1", {"calls": [["from", V], ["select", [f("v", "id")]]]}]),
]
SETOP_ALPHA = [
    ("order", ["orderby", [f("t", "a")], "asc"]),
    ("order", ["orderby", [["as", f("t", "a"), "k"]], "desc"]),
    ("limit", ["limit", 3]),
    ("offset", ["offset", 1]),
    ("setop", ["intersect", {"calls": [["from", V], ["select", [f("v", "x")]]]}]),
]
KINDS = {
    "setop": (["from", T], SETOP_ALPHA),
    "select": (["from", T], SELECT_ALPHA),
    "insert": (["into", TI], INSERT_ALPHA),
    "insert_select": (["into", ["t", "t1"]], INSERT_SELECT_ALPHA),
    "update": (["update", T], UPDATE_ALPHA),
    "delete": (["from", T], DELETE_ALPHA),
}
DDL_ALPHA = [
    ("columns", ("columns", ("a", ("b", "INT")))),
    ("columns", ("columns", ("c",))),
    ("unique", ("unique", ("a", "b"))),
    ("unique", ("unique", ("b",))),
    ("pk", ("primary_key", ("a",))),
    ("period", ("period_for", ("p", "a", "b"))),
    ("temporary", ("temporary", ())),
    ("unlogged", ("unlogged", ())),
    ("ine", ("if_not_exists", ())),
    ("sysver", ("with_system_versioning", ())),
    ("as_select", ("as_select", None)),
]

# clause keyword order at bracket depth 0, per statement kind (a keyword may be absent; JOIN may repeat)
ORDER = {
    "SELECT": ["WITH", "SELECT", "INTO", "FROM", "FORCE", "USE", "JOIN", "PREWHERE", "WHERE", "GROUP", "HAVING", "ORDER", "LIMIT",
               "OFFSET", "FETCH", "FOR"],
    "INSERT": ["WITH", "INSERT", "REPLACE", "VALUES", "SELECT", "FROM", "JOIN", "WHERE", "GROUP", "HAVING", "ORDER", "LIMIT", "OFFSET", "FETCH", "ON", "DO",
               "WHERE2", "RETURNING"],
    "UPDATE": ["WITH", "UPDATE", "JOIN0", "SET", "FROM", "JOIN", "WHERE", "ORDER", "LIMIT", "RETURNING"],
    "DELETE": ["WITH", "DELETE", "FROM", "JOIN", "WHERE", "ORDER", "LIMIT", "RETURNING"],
}
CLAUSE_WORDS = {"WITH", "SELECT", "INTO", "FROM", "FORCE", "USE", "JOIN", "PREWHERE", "WHERE", "GROUP", "HAVING", "ORDER", "LIMIT", "OFFSET",
                "FETCH", "FOR", "INSERT", "REPLACE", "VALUES", "UPDATE", "SET", "DELETE", "RETURNING"}


def multisets(alpha, maxsize):
    idx = list(range(len(alpha)))
    for n in range(0, maxsize + 1):
        for comb in itertools.combinations(idx, n):
            yield list(comb)


def extensions(alpha, comb):
    """all orders of the chosen calls in which calls of one family keep their canonical relative order"""
    fams = [alpha[i][0] for i in comb]
    seen = set()
    for perm in itertools.permutations(range(len(comb))):
        ok = True
        last = {}
        for p in perm:
            fam = fams[p]
            if fam in last and last[fam] > p:
                ok = False
                break
            last[fam] = p
        if ok:
            yield [comb[p] for p in perm]


# The entry call (from_/into/update) among the permuted calls: every order of one call per clause. Orders that the reference
# tree rejects (a call that needs the FROM table before it exists) are listed; every other order must build and give the
# statement of the entry-first order.
ENTRY_FREE = {
    "update": [["update", T], ["from", U], ["set", f("t", "a"), f("u", "x")], ["where", ["cmp", "=", f("t", "id"), f("u", "tid")]]],
    "update_plain": [["update", T], ["set", f("t", "a"), raw(1)], ["where", ["cmp", "=", f("t", "id"), raw(3)]], ["with", "c1", {"calls": [["from", V], ["select", [f("v", "id")]]]}]],
    "select": [["from", T], ["select", [f("t", "a")]], ["where", ["cmp", ">", f("t", "a"), raw(1)]], ["orderby", [f("t", "a")], "asc"], ["limit", 3]],
    "select_join": [["from", T], ["join", "inner", U, ["on", ["cmp", "=", f("t", "id"), f("u", "tid")]]], ["select", [f("t", "a")]], ["where", ["cmp", ">", f("u", "x"), raw(1)]]],
    "delete": [["from", T], ["delete"], ["where", ["cmp", "=", f("t", "a"), raw(1)]]],
    "insert": [["into", TI], ["columns", ["a", "b"]], ["insert", [raw(1), raw(2)]]],
}
# (INSERT .. SELECT is left out: into() after select() is the library's SELECT .. INTO, another statement)
# (statement, call that raised, call names made before it) on the reference tree
ENTRY_FREE_REJECTED = {
    "insert|columns||AttributeError", "insert|insert||AttributeError",  # columns() / insert() need the target table
    "select_join|join||JoinException", "select_join|join|select|JoinException", "select_join|join|where|JoinException",
    "select_join|join|select,where|JoinException",  # join() needs the FROM table its ON criterion refers to
}


def chunks(tier, seed):
    out = []
    for d in fp.CTX:
        out.append({"d": d, "kind": "entry_free"})
    size = 3 if tier == "quick" else 4
    for d in fp.CTX:
        for kind in KINDS:
            n = len(KINDS[kind][1])
            for first in range(-1, n):
                out.append({"d": d, "kind": kind, "first": first, "size": size})
        out.append({"d": d, "kind": "ddl", "size": size + 1})
    return out


def expand(chunk):
    d, kind = chunk["d"], chunk["kind"]
    if kind == "entry_free":
        for name in ENTRY_FREE:
            yield {"d": d, "kind": "entry_free", "stmt": name, "comb": []}
        for name in JOIN_SHORTHANDS:
            yield {"d": d, "kind": "join_shorthand", "stmt": name, "comb": []}
        for fam in ACC_FAMILIES:
            for n in (3, 4, 5):
                yield {"d": d, "kind": "accumulate", "stmt": fam, "n": n, "comb": []}
        return
    if kind == "ddl":
        for comb in multisets(DDL_ALPHA, chunk["size"]):
            yield {"d": d, "kind": "ddl", "comb": comb}
        return
    entry, alpha = KINDS[kind]
    for comb in multisets(alpha, chunk["size"]):
        if (comb[0] if comb else -1) != chunk["first"]:
            continue
        yield {"d": d, "kind": kind, "comb": comb}
    if kind == "select" and chunk["size"] == 3 and chunk["first"] == 0:
        # quick tier: a complete SELECT plus every three calls of the grouping / ordering / paging families (three chained calls of
        # one family, ROLLUP with HAVING, slices with limit and offset)
        tail = [i for i, (fam, c) in enumerate(alpha) if fam in ("group", "having", "order", "limit", "offset") and i != 0]
        for three in itertools.combinations(tail, 3):
            yield {"d": d, "kind": kind, "comb": [0] + list(three)}


# ---- oracles ---------------------------------------------------------------------------------------------------------


def skeleton(toks):
    """clause keywords at bracket depth 0; raises ValueError on unbalanced brackets"""
    depth = 0
    out = []
    for i, t in enumerate(toks):
        if t.kind == "OP" and t.text == "(":
            depth += 1
        elif t.kind == "OP" and t.text == ")":
            depth -= 1
            if depth < 0:
                raise ValueError("unbalanced ')'")
        elif depth == 0 and t.kind == "WORD" and t.value in CLAUSE_WORDS:
            out.append((t.value, i))
    if depth != 0:
        raise ValueError("unbalanced '('")
    return out


def check_skeleton(sql, lexd, kind):
    """-> None or symptom"""
    try:
        toks = lex(sql, lexd)
    except LexError as e:
        return "unlexable:%s" % e
    try:
        sk = skeleton(toks)
    except ValueError as e:
        return str(e)
    words = [w for w, _ in sk]
    if not words:
        return "no-clause"
    head = words[0] if words[0] != "WITH" else (words[1] if len(words) > 1 else "WITH")
    stmt = {"SELECT": "SELECT", "INSERT": "INSERT", "REPLACE": "INSERT", "UPDATE": "UPDATE", "DELETE": "DELETE"}.get(head)
    if stmt is None:
        return "unknown-statement-head:%s" % head
    order = ORDER[stmt]
    if stmt == "SELECT":
        # modifiers of the select list: SELECT [DISTINCT] [TOP (n)] items (T-SQL reads them in this order only)
        depth, p_top, p_distinct = 0, None, None
        for i, t in enumerate(toks):
            if t.kind == "OP" and t.text == "(":
                depth += 1
            elif t.kind == "OP" and t.text == ")":
                depth -= 1
            elif depth == 0 and t.kind == "WORD":
                if t.value == "FROM":
                    break
                if t.value == "TOP" and p_top is None:
                    p_top = i
                if t.value == "DISTINCT" and p_distinct is None:
                    p_distinct = i
        if p_top is not None and p_distinct is not None and p_top < p_distinct:
            return "clause-order:DISTINCT-after-TOP"
    # context dependent keywords
    seq = []
    seen_set = seen_do = False
    for j, (w, i) in enumerate(sk):
        nxt = toks[i + 1] if i + 1 < len(toks) else None
        if w == "FOR":
            seq.append("FOR")
        elif w == "INTO" and stmt == "INSERT":
            continue
        elif w == "WITH" and j > 0:
            # WITH TOTALS / WITH ROLLUP are modifiers of GROUP BY: they follow its item list directly
            if seq and seq[-1] != "GROUP":
                return "clause-order:WITH-after-%s" % seq[-1]
            continue
        elif w == "FROM" and stmt == "DELETE" and j == 1:
            seq.append("FROM")
        elif w == "UPDATE" and j > 0:
            continue  # FOR UPDATE / ON DUPLICATE KEY UPDATE / DO UPDATE
        elif w == "SET" and stmt == "INSERT":
            continue  # DO UPDATE SET
        elif w == "WHERE" and stmt == "INSERT" and seen_do:
            seq.append("WHERE2")
        elif w == "JOIN" and stmt == "UPDATE" and not seen_set:
            seq.append("JOIN0")
        else:
            seq.append(w)
        if w == "SET":
            seen_set = True
    # ON CONFLICT / DO ... of upserts are not in CLAUSE_WORDS; detect DO for WHERE2 classification
    pos = -1
    last_w = None
    for w in seq:
        if w not in order:
            return "unexpected-clause:%s" % w
        p = order.index(w)
        if p < pos:
            return "clause-order:%s-after-%s" % (w, last_w)
        if p == pos and w not in ("JOIN", "JOIN0", "WHERE"):
            return "clause-repeated:%s" % w
        if p == pos and w == "WHERE" and stmt != "INSERT":
            return "clause-repeated:WHERE"
        pos, last_w = p, w
    # empty clause bodies: a clause keyword directly followed by another clause keyword or the end
    for (w, i), nxt in zip(sk, sk[1:] + [(None, len(toks))]):
        body = toks[i + 1:nxt[1]]
        if w in ("SELECT", "FROM", "WHERE", "HAVING", "SET", "VALUES", "PREWHERE", "RETURNING", "LIMIT", "OFFSET") and not body:
            return "empty-clause:%s" % w
        if w in ("GROUP", "ORDER") and len(body) < 2:
            return "empty-clause:%s" % w
    return None


# every call leaves its clause in the statement; criteria given by successive calls of one family appear in call order
FAMILY_WORDS = {"where": ["WHERE"], "prewhere": ["PREWHERE"], "having": ["HAVING"], "group": ["GROUP"], "order": ["ORDER"], "join": ["JOIN"],
                "distinct": ["DISTINCT"], "offset": ["OFFSET"], "limit": ["LIMIT", "FETCH", "TOP"], "top": ["TOP"], "set": ["SET"], "values": ["VALUES"],
                "returning": ["RETURNING"], "with": ["WITH"], "force_index": ["FORCE"], "use_index": ["USE"], "for_update": ["FOR"]}


def _top_word(toks, word):
    depth = 0
    for i, t in enumerate(toks):
        if t.kind == "OP" and t.text == "(":
            depth += 1
        elif t.kind == "OP" and t.text == ")":
            depth -= 1
        elif depth == 0 and t.kind == "WORD" and t.value == word:
            return i
    return None


def check_presence(sql, lexd, kind, d, calls):
    toks = lex(sql, lexd)
    words = {t.value for t in toks if t.kind == "WORD"}
    fams = [f_ for f_, _ in calls]
    for fam in set(fams):
        need = FAMILY_WORDS.get(fam)
        if fam == "group" and all(c[1][0] == "with_totals" for c in calls if c[0] == "group"):
            continue
        if need and not (set(need) & words):
            return "clause-missing:%s" % need[0]
    if d == "mssql" and "FETCH" in words and "OFFSET" not in words:
        return "clause-missing:OFFSET"
    if d in ("mssql", "oracle") and "OFFSET" in words and "ROWS" not in words:
        return "clause-shape:OFFSET"
    # items of one clause in call order: each call of the family names its own column
    for fam, word in (("group", "GROUP"), ("order", "ORDER"), ("select", "SELECT")):
        cols = []
        for f_, c in calls:
            if f_ == fam and c[0] != "with_totals":
                js = json.dumps(c)
                m = re.search(r'\["f", "\w+", "(\w+)"\]|\["name", "(\w+)"\]', js)
                if m:
                    cols.append(m.group(1) or m.group(2))
        if len(cols) > 1 and len(set(cols)) == len(cols):
            start = _top_word(toks, word)
            if start is None:
                continue
            posn = []
            for col in cols:
                idx = [i for i, t in enumerate(toks) if i > start and t.kind == "ID" and t.value == col]
                posn.append(idx[0] if idx else -1)
            if -1 not in posn and posn != sorted(posn):
                return "item-order:%s" % word
    # every select() call contributes its items: the select list has as many items as were selected (a column may be selected twice)
    sel_calls = [c for f_, c in calls if f_ == "select" and c[0] == "select"]
    if kind == "select" and sel_calls and "star" not in json.dumps(sel_calls):
        n_want = sum(len(c[1]) for c in sel_calls)
        start = _top_word(toks, "SELECT")
        if start is not None:
            depth, n_got, seen_item = 0, 0, False
            for t in toks[start + 1:]:
                if t.kind == "OP" and t.text in ("(", "["):
                    depth += 1
                elif t.kind == "OP" and t.text in (")", "]"):
                    depth -= 1
                elif depth == 0 and t.kind == "WORD" and t.value == "FROM":
                    break
                elif depth == 0 and t.kind == "OP" and t.text == ",":
                    n_got += 1
                    continue
                seen_item = True
            n_got += 1 if seen_item else 0
            if n_got != n_want:
                return "item-count:SELECT"
    # conjuncts in call order: each criterion call carries its own numeric literal
    for fam in ("where", "prewhere", "having"):
        marks = []
        for f_, c in calls:
            if f_ == fam and kind != "insert":
                nums = [x for x in json.dumps(c).replace("[", " ").replace("]", " ").replace(",", " ").split() if x.lstrip("-").isdigit()]
                if nums:
                    marks.append(int(nums[-1]))
        if len(marks) > 1 and len(set(marks)) == len(marks):  # (a call made twice carries the same marker twice: no order to read)
            posn = []
            start = _top_word(toks, fam.upper()) or 0
            for m in marks:
                idx = [i for i, t in enumerate(toks) if i > start and t.kind == "NUM" and t.value == m]
                posn.append(idx[0] if idx else -1)
            if -1 not in posn and posn != sorted(posn):
                return "conjunct-order:%s" % fam.upper()
    return None


def check_setop_tail(sql, lexd, d=None):
    """after the last set operator at depth 0: ORDER BY at most once, before the row-limiting clause, brackets balanced"""
    try:
        toks = lex(sql, lexd)
    except LexError as e:
        return "unlexable"
    depth, top = 0, []
    for t in toks:
        if t.kind == "OP" and t.text == "(":
            depth += 1
        elif t.kind == "OP" and t.text == ")":
            depth -= 1
            if depth < 0:
                return "unbalanced"
        elif depth == 0 and t.kind == "WORD":
            top.append(t.value)
    if depth:
        return "unbalanced"
    last = max([i for i, w in enumerate(top) if w in ("UNION", "INTERSECT", "EXCEPT", "MINUS")] or [-1])
    tail = [w for w in top[last + 1:] if w in ("ORDER", "LIMIT", "OFFSET", "FETCH")]
    if tail.count("ORDER") > 1:
        return "clause-repeated:ORDER"
    if "ORDER" in tail and tail.index("ORDER") != 0:
        return "clause-order:ORDER-after-row-limit"
    for w in ("LIMIT", "OFFSET", "FETCH"):
        if tail.count(w) > 1:
            return "clause-repeated:%s" % w
    # the row-limiting clause of a set operation is the dialect's own, like that of a plain query
    if d in ("mssql", "oracle") and "LIMIT" in tail:
        return "clause-shape:LIMIT-in-%s" % d
    if d in ("sqlite", "mysql") and "OFFSET" in tail and "LIMIT" not in tail:
        return "clause-missing:LIMIT"
    return None


_dbs = {}


def sqlite_accepts(sql):
    db = _dbs.get("db")
    if db is None:
        db = sqlite3.connect(":memory:")
        db.executescript("""CREATE TABLE t(id INTEGER PRIMARY KEY, a, b, s, k); CREATE TABLE u(id INTEGER, tid, x, y);
                            CREATE TABLE v(id INTEGER, x); CREATE TABLE ti(a PRIMARY KEY, b); CREATE TABLE t1(a);""")
        _dbs["db"] = db
    try:
        db.execute("EXPLAIN " + sql)
        return None
    except sqlite3.Error as e:
        return str(e)


SQLITE_UNSUPPORTED = {"force_index", "use_index", "for_update", "prewhere", "with_totals", "returning", "rollup"}


def build_ddl(order):
    from pypika_tortoise import Query, Table

    q = Query.create_table(Table("n1"))
    for i in order:
        name, args = DDL_ALPHA[i][1]
        if name == "as_select":
            q = q.as_select(Query.from_(Table("t")).select("a", "b"))
        else:
            q = getattr(q, name)(*args)
    return q


def run_entry_free(case, res):
    d, name = case["d"], case["stmt"]
    calls = ENTRY_FREE[name]
    res.nontrivial = 1
    res.states.append(h64(json.dumps([d, name])))
    ref_key = None
    for order in itertools.permutations(range(len(calls))):
        env = prog.Env(d)
        q = env.Q._builder()
        done = []
        key = None
        for j in order:
            try:
                q = prog.call(q, calls[j], env)
            except Exception as e:
                key = ("!", calls[j][0], tuple(sorted(done)), type(e).__name__)
                break
            done.append(calls[j][0])
        res.transitions += 1
        if key is None:
            try:
                sql, _ = prog.render(q, d)
                psql, vals = prog.render(q, d, param=True)
                key = json.dumps([sql, psql, fp.vrepr(vals)])
            except Exception as e:
                key = ("!", "render", tuple(), type(e).__name__)
        if isinstance(key, tuple):
            ent = "%s|%s|%s|%s" % (name, key[1], ",".join(key[2]), key[3])
            if _ENTRY_FREE_RECORD is not None:
                _ENTRY_FREE_RECORD.add(ent)
            elif ent not in ENTRY_FREE_REJECTED:
                res.violate("C13|entry_free|%s|rejected|%s" % (name, key[3]), "an order of clause-setting calls that the reference tree accepts is rejected: "
                            "%s() after %s" % (key[1], list(key[2]) or "nothing"), dialect=d, order=[calls[j][0] for j in order])
            continue
        res.outcomes.append(h64(key))
        if ref_key is None:
            ref_key, ref_order = key, order
        elif key != ref_key:
            res.violate("C13|entry_free|%s|order-dependent" % name, "two orders of the same clause-setting calls give different statements",
                        dialect=d, order1=[calls[j][0] for j in ref_order], out1=ref_key[:300], order2=[calls[j][0] for j in order], out2=key[:300])
            return


JOIN_SHORTHANDS = {"inner_join": "inner", "left_join": "left", "left_outer_join": "left_outer", "right_join": "right",
                   "right_outer_join": "right_outer", "outer_join": "outer", "full_outer_join": "full_outer", "cross_join": "cross",
                   "hash_join": "hash"}


def run_join_shorthand(case, res):
    """q.left_join(x) is q.join(x, JoinType.left), and so on for every shorthand: same statement, for a table and for a subquery,
    continued with on() / using() / cross(); is_joined() answers for the joined item and for nothing else"""
    from pypika_tortoise import Table
    from pypika_tortoise.enums import JoinType

    d, name = case["d"], case["stmt"]
    Q = fp.QCLS[d]
    res.nontrivial = 1
    res.states.append(h64(json.dumps([d, name])))
    t, u, w = Table("t"), Table("u"), Table("w")
    jt = getattr(JoinType, JOIN_SHORTHANDS[name])
    for item_kind in ("table", "subquery"):
        for cont in ("on", "using", "on_field", "second_join"):
            def build(short):
                item = u if item_kind == "table" else Q.from_(u).select(u.id, u.x).as_("sj")
                base = Q.from_(t).select(t.a)
                j = getattr(base, name)(item) if short else base.join(item, jt)
                if name == "cross_join":
                    q = j.cross()
                elif cont == "on":
                    q = j.on(t.id == item.id)
                elif cont == "using":
                    q = j.using("id")
                elif cont == "on_field":
                    q = j.on_field("id")
                else:
                    q = j.on(t.id == item.id)
                    q = (q.left_join(w) if short else q.join(w, JoinType.left)).on(t.id == w.id)
                return q, item
            try:
                (a, ia), (b, ib) = build(True), build(False)
                ra, rb = prog.render(a, d)[0], prog.render(b, d)[0]
                joined = (a.is_joined(ia), a.is_joined(Table("zz")), b.is_joined(ib))
            except Exception as e:
                res.violate("C13|join_shorthand|%s|raises|%s" % (name, type(e).__name__), "a join shorthand raised", dialect=d, item=item_kind, cont=cont, error=str(e)[:200])
                continue
            res.transitions += 2
            res.outcomes.append(h64(ra))
            if ra != rb:
                res.violate("C13|join_shorthand|%s|differs-from-join" % name, "the shorthand does not give the statement of join(item, JoinType.%s)" % JOIN_SHORTHANDS[name],
                            dialect=d, item=item_kind, cont=cont, shorthand=ra, join=rb)
            if joined != (True, False, True):
                res.violate("C13|join_shorthand|%s|is_joined" % name, "is_joined() does not report the joined item (and only it)", dialect=d, item=item_kind, got=joined)


ACC_FAMILIES = ("where", "having", "prewhere", "select", "groupby", "orderby", "join", "with", "update_where", "delete_where", "set", "from")


def sqlite_parse_error(sql):
    """True when SQLite's parser (not its name resolution) rejects the text"""
    try:
        sqlite3.connect(":memory:").execute("EXPLAIN " + sql)
    except sqlite3.Error as e:
        m = str(e)
        return not (m.startswith("no such table") or m.startswith("no such column") or "no such function" in m)
    return False


def run_accumulate(case, res):
    """n = 3..5 calls of ONE clause, each carrying its own marker: the markers appear in the statement once each, in call order,
    inside that clause; the statement is lexable and balanced and, for the SQLite dialect, accepted by the engine's parser.
    Then the same through every sub-statement position that has its own rendering path (select-list item, FROM source, IN operand,
    CTE body): the embedded text is bracketed, i.e. no clause keyword of the inner statement appears at the outer bracket level."""
    from pypika_tortoise import Table, Field, functions as FN

    d, fam, n = case["d"], case["stmt"], case["n"]
    Q = fp.QCLS[d]
    lexd = "sqlite" if d == "generic" else d
    res.nontrivial = 1
    res.states.append(h64(json.dumps([d, fam, n])))
    t = Table("t")
    marks = ["mk%da" % i for i in range(n)]
    cols = [Field(m, table=t) for m in marks]
    if fam == "where":
        q = Q.from_(t).select(t.a)
        for c in cols:
            q = q.where(c > 0)
    elif fam == "prewhere":
        q = Q.from_(t).select(t.a)
        for c in cols:
            q = q.prewhere(c > 0)
    elif fam == "having":
        q = Q.from_(t).select(FN.Count(t.id)).groupby(t.a)
        for c in cols:
            q = q.having(FN.Sum(c) > 0)
    elif fam == "select":
        q = Q.from_(t)
        for c in cols:
            q = q.select(c)
    elif fam == "groupby":
        q = Q.from_(t).select(FN.Count(t.id))
        for c in cols:
            q = q.groupby(c)
    elif fam == "orderby":
        q = Q.from_(t).select(t.a)
        for c in cols:
            q = q.orderby(c)
    elif fam == "join":
        q = Q.from_(t).select(t.a)
        for m in marks:
            j = Table(m)
            q = q.join(j).on(t.id == j.id)
    elif fam == "with":
        q = Q.from_(t).select(t.a)
        for m in marks:
            q = q.with_(Q.from_(Table("src")).select("x"), m)
    elif fam == "from":
        q = Q.from_(Table(marks[0]))
        for m in marks[1:]:
            q = q.from_(Table(m))
        q = q.select("x")
    elif fam == "update_where":
        q = Q.update(t).set(t.a, 1)
        for c in cols:
            q = q.where(c > 0)
    elif fam == "delete_where":
        q = Q.from_(t).delete()
        for c in cols:
            q = q.where(c > 0)
    else:  # set
        q = Q.update(t)
        for c in cols:
            q = q.set(c, 1)
    outer = Table("o")
    forms = {"top": q}
    if fam in ("where", "having", "select", "groupby", "orderby", "join", "from"):
        one = q if fam != "select" else Q.from_(t).select(cols[0]).where(cols[1] > 0).where(cols[2] > 0) if n == 3 else None
        if fam != "select":
            forms["from_source"] = Q.from_(q.as_("sq")).select("x")
            forms["in_operand"] = Q.from_(outer).select(outer.z).where(outer.k.isin(q)) if fam not in ("from",) else None
            forms["cte_body"] = Q.from_(outer).select(outer.z).with_(q, "cte1")
        if one is not None and fam in ("where", "select"):
            forms["select_item"] = Q.from_(outer).select(outer.z, one.limit(1).as_("it") if fam == "select" else Q.from_(t).select(t.a).where(cols[0] > 0).where(cols[1] > 0).where(cols[2] > 0).limit(1).as_("it"))
    al = "pqr" if d == "oracle" else 'p"q`r'
    if fam == "select":
        # aliases that contain the quote characters, in the select list and on a FROM source, with and without the AS keyword
        forms["aliased"] = Q.from_(Q.from_(t).select(cols[0].as_(al), cols[1], cols[2]).as_(al)).select("x")
    for form, obj in forms.items():
        if obj is None:
            continue
        for as_kw in (False, True):
            try:
                sql = obj.get_sql(fp.CTX[d].copy(as_keyword=True)) if as_kw else prog.render(obj, d)[0]
            except Exception as e:
                res.violate("C13|accumulate|%s|raises|%s" % (fam, type(e).__name__), "a repeated clause call raised", dialect=d, form=form, n=n, error=str(e)[:200])
                continue
            res.transitions += 1
            res.outcomes.append(h64(sql))
            try:
                toks = lex(sql, lexd)
            except LexError as e:
                res.violate("C13|accumulate|%s|unlexable" % form, "the statement cannot be lexed", dialect=d, family=fam, n=n, as_keyword=as_kw, sql=sql, error=str(e)[:120])
                continue
            depth, bad, pos, top_words = 0, False, {}, []
            for i, tk in enumerate(toks):
                if tk.kind == "OP" and tk.text == "(":
                    depth += 1
                elif tk.kind == "OP" and tk.text == ")":
                    depth -= 1
                    bad = bad or depth < 0
                elif tk.kind == "ID" or (tk.kind == "WORD" and tk.text in marks):
                    if (tk.value if tk.kind == "ID" else tk.text) in marks:
                        pos.setdefault(tk.value if tk.kind == "ID" else tk.text, []).append(i)
                if depth == 0 and tk.kind == "WORD" and tk.value in ("SELECT", "FROM", "WHERE", "HAVING"):
                    top_words.append(tk.value)
            if bad or depth:
                res.violate("C13|accumulate|%s|unbalanced" % form, "brackets do not balance", dialect=d, family=fam, n=n, sql=sql)
                continue
            if form == "aliased":
                n_al = sum(1 for tk in toks if tk.kind == "ID" and tk.value == al)
                n_as = sum(1 for i, tk in enumerate(toks[1:], 1) if tk.kind == "ID" and tk.value == al and toks[i - 1].kind == "WORD" and toks[i - 1].value == "AS")
                if n_al != 3 or n_as != (2 if as_kw else 0):
                    res.violate("C13|accumulate|aliased|alias-tokens", "an alias is not written as one identifier token%s" % (" after AS" if as_kw else ""),
                                dialect=d, as_keyword=as_kw, alias=al, found=n_al, after_as=n_as, sql=sql)
            expect_marks = marks if form not in ("select_item", "aliased") else marks[:3]
            order = [pos.get(m, [None])[0] for m in expect_marks]
            counts = [len(pos.get(m, [])) for m in expect_marks]
            per = 2 if fam == "join" else 1  # a joined table is named in JOIN and in its ON criterion
            want = [per] * len(counts)
            if fam == "from":
                want[0] = 2  # the column selected by name belongs to the first FROM table and is qualified with it
            if counts != want:
                res.violate("C13|accumulate|%s|marker-count" % fam, "a repeated call's item is missing or duplicated in the statement", dialect=d, form=form, n=n, counts=counts, sql=sql)
            elif order != sorted(order):
                res.violate("C13|accumulate|%s|call-order" % fam, "repeated calls of one clause do not accumulate in call order", dialect=d, form=form, n=n, sql=sql)
            for w in ("SELECT", "FROM", "WHERE", "HAVING"):
                if top_words.count(w) > 1 and not (w == "SELECT" and form == "cte_body"):
                    res.violate("C13|accumulate|%s|clause-twice" % form, "clause keyword %s appears twice at the statement's own bracket level" % w, dialect=d, family=fam, n=n, as_keyword=as_kw, sql=sql)
                    break
            if d == "sqlite" and fam not in ("prewhere",) and sqlite_parse_error(sql):
                res.violate("C13|accumulate|%s|sqlite-rejects" % form, "SQLite's parser rejects the statement", family=fam, n=n, as_keyword=as_kw, sql=sql)


def run_self_join_star(case, res):
    """one table under two aliases: the star of one alias subsumes the columns of that alias only"""
    from pypika_tortoise import Table

    d = case["d"]
    Q = fp.QCLS[d]
    lexd = "sqlite" if d == "generic" else d
    res.nontrivial = 1
    res.states.append(h64(json.dumps([d, "self_join_star"])))
    for first_star in (False, True):
        e, b = Table("emp").as_("e"), Table("emp").as_("b")
        q = Q.from_(e).join(b).on(e.boss == b.id)
        q = q.select(e.star).select(b.name, e.id) if first_star else q.select(b.name, e.id).select(e.star)
        try:
            sql = prog.render(q, d)[0]
            toks = lex(sql, lexd)
        except Exception as ex:
            res.violate("C13|self_join_star|raises|%s" % type(ex).__name__, "a self-join with a table star raised / does not lex", dialect=d)
            continue
        res.transitions += 1
        res.outcomes.append(h64(sql))
        ids = [t.value for t in toks if t.kind == "ID"]
        star_e = any(toks[i].kind == "ID" and toks[i].value == "e" and i + 2 < len(toks) and toks[i + 2].text == "*" for i in range(len(toks)))
        if "name" not in ids or not star_e:
            res.violate("C13|self_join_star|item-missing", "a column of the other alias (or the star) is missing from the select list", dialect=d, sql=sql,
                        star_first=first_star)


_ENTRY_FREE_RECORD = None


def run_case(case):
    res = Result()
    if case["kind"] == "entry_free":
        run_entry_free(case, res)
        return res
    if case["kind"] == "accumulate":
        run_accumulate(case, res)
        return res
    if case["kind"] == "join_shorthand":
        run_join_shorthand(case, res)
        if case["stmt"] == "inner_join":
            run_self_join_star(case, res)
        return res
    d, kind, comb = case["d"], case["kind"], case["comb"]
    lexd = "sqlite" if d == "generic" else d
    res.states.append(h64(json.dumps([kind, comb])))
    if kind == "ddl":
        alpha = DDL_ALPHA
        fams = [alpha[i][0] for i in comb]
        if "as_select" in fams and "columns" in fams:
            return res  # mutually exclusive by contract (C14)
        outs = {}
        for order in extensions(alpha, comb):
            try:
                o = build_ddl(order)
                sql = o.get_sql(fp.CTX[d])
            except Exception as e:
                sql = "!" + type(e).__name__
            res.transitions += 1
            outs.setdefault(sql, order)
        res.nontrivial = 1 if len(comb) > 1 else 0
        res.outcomes.extend(h64(s) for s in outs)
        if len(outs) > 1:
            (s1, o1), (s2, o2) = list(outs.items())[:2]
            res.violate("C13|ddl|order-dependent|%s" % "+".join(sorted(set(fams))), "two orders of the same DDL calls render differently",
                        calls=[alpha[i][1][0] for i in comb], order1=o1, sql1=s1, order2=o2, sql2=s2)
            return res
        sql = next(iter(outs))
        complete = ("columns" in fams) or ("as_select" in fams)
        if not complete and sql != "":
            res.violate("C13|ddl|incomplete-renders-fragment", "CREATE TABLE without columns renders %r" % sql, calls=[alpha[i][1][0] for i in comb])
        if complete:
            try:
                toks = lex(sql, lexd)
                depth = 0
                for t in toks:
                    depth += (t.text == "(") - (t.text == ")") if t.kind == "OP" else 0
                    if depth < 0:
                        raise ValueError
                if depth:
                    raise ValueError
            except (LexError, ValueError):
                res.violate("C13|ddl|malformed", "unbalanced / unlexable DDL", sql=sql)
            uses_ab = 0 in comb or "as_select" in fams  # columns a, b exist
            if d == "sqlite" and not ({"unlogged", "sysver", "period"} & set(fams)) and uses_ab:
                db = sqlite3.connect(":memory:")
                db.execute("CREATE TABLE t(a, b)")
                try:
                    db.execute(sql)
                    res.transitions += 1
                except sqlite3.Error as e:
                    res.violate("C13|ddl|sqlite-rejects|%s" % ("as_select" if "as_select" in fams else "+".join(sorted(set(fams) - {"columns"}))),
                                "SQLite rejects the DDL: %s" % e, sql=sql)
                finally:
                    db.close()
        return res
    entry, alpha = KINDS[kind]
    fams = [alpha[i][0] for i in comb]
    names = [alpha[i][1][0] for i in comb]
    is_pg = d == "postgresql"
    if kind == "select" and "from2" in fams and any(alpha[i][1][0] == "join" and alpha[i][1][2] == U for i in comb):
        return res  # the same table in the FROM list and as a joined item: the automatic self-join alias is order-sensitive by design
    if kind == "update" and d != "mysql" and ({"order", "limit"} & set(fams)):
        return res  # UPDATE ... ORDER BY / LIMIT is MySQL syntax
    if "returning" in fams and not is_pg:
        return res
    if ("top" in fams or "fetch_next" in names) and d != "mssql":
        return res
    if d == "oracle" and any('"p"q"' in repr(alpha[i][1]) for i in comb):
        return res  # an Oracle identifier cannot contain a double quote at all (no escape exists): not expressible
    if kind == "insert_select" and "conflict" in fams:
        calls_ = [alpha[i][1][0] for i in comb if alpha[i][0] == "conflict"]
        if calls_[0] != "on_conflict" or len(calls_) != 2:
            return res
        if "where" in fams:
            return res  # where() after on_conflict() is routed to the conflict clause: not a commuting call
    if kind == "insert" and "conflict" in fams:
        # the conflict family is a chain on_conflict -> handler -> where: keep only well-ordered sub-chains
        calls = [alpha[i][1][0] for i in comb if alpha[i][0] == "conflict"]
        if calls[0] != "on_conflict" or ("do_update" in calls and "do_nothing" in calls) or (calls[-1] == "where" and "do_update" not in calls):
            return res
    outs = {}
    n_ext = 0
    for order in extensions(alpha, comb):
        pre = [["delete"]] if kind == "delete" else []
        if kind == "setop":
            pre = [["select", [["as", f("t", "a"), "k"]]], ["union_all", {"calls": [["from", U], ["select", [f("u", "x")]]]}]]
        p = {"calls": [entry] + pre + [alpha[i][1] for i in order]}
        n_ext += 1
        try:
            o = prog.build(p, dialect=d)
        except Exception as e:
            outs.setdefault("!build:" + type(e).__name__, order)
            continue
        try:
            sql, _ = prog.render(o, d)
            psql, vals = prog.render(o, d, param=True)
            key = json.dumps([sql, psql, fp.vrepr(vals)])
        except Exception as e:
            key = "!render:" + type(e).__name__
        res.transitions += 2
        outs.setdefault(key, order)
    res.nontrivial = 1 if n_ext > 1 else 0
    res.outcomes.extend(h64(s) for s in outs)
    if comb and kind != "setop":
        # the canonical order once more with equal arguments being one shared object
        sd = prog.shared_objects_diff({"calls": [entry] + pre + [alpha[i][1] for i in comb]}, d)
        res.transitions += 6
        if sd is not None:
            res.violate("C13|%s|shared-objects|%s" % (kind, "+".join(sorted(set(fams)))), "the statement changes when equal arguments of its calls are "
                        "one shared object", dialect=d, calls=[alpha[i][1] for i in comb], **sd)
            return res
    # the same orders again, now continued from shared prefix objects (every partial statement is built once and all
    # orders that start with it continue from that one object): the result must be the statement built from scratch
    if len(outs) == 1 and not next(iter(outs)).startswith("!") and n_ext > 1:
        fresh_key = next(iter(outs))
        cache = {}
        for order in extensions(alpha, comb):
            calls_ = [entry] + pre + [alpha[i][1] for i in order]
            ids = tuple(["e"] + ["p%d" % j for j in range(len(pre))] + list(order))
            k = len(ids)
            while k > 0 and ids[:k] not in cache:
                k -= 1
            if k == 0:
                env = prog.Env(d)
                q = env.Q._builder()
            else:
                q, sym = cache[ids[:k]]
                env = prog.Env(d)
                env.sym = dict(sym)
            try:
                for j in range(k, len(ids)):
                    q = prog.call(q, calls_[j], env)
                    cache[ids[:j + 1]] = (q, dict(env.sym))
                sql, _ = prog.render(q, d)
                psql, vals = prog.render(q, d, param=True)
                key2 = json.dumps([sql, psql, fp.vrepr(vals)])
            except Exception as e:
                key2 = "!shared:" + type(e).__name__
            res.transitions += 2
            if key2 != fresh_key:
                res.violate("C13|%s|shared-prefix-dependent|%s" % (kind, "+".join(sorted(set(fams)))),
                            "the statement continued from a partial statement that other continuations also started from differs from "
                            "the same calls made from scratch", dialect=d, calls=[alpha[i][1] for i in comb], order=list(order),
                            scratch=fresh_key[:400], shared=key2[:400])
                return res
    if len(outs) > 1:
        (s1, o1), (s2, o2) = list(outs.items())[:2]
        res.violate("C13|%s|order-dependent|%s" % (kind, "+".join(sorted(set(fams)))),
                    "two orders of the same commuting calls give different statements",
                    dialect=d, calls=[alpha[i][1] for i in comb], order1=o1, out1=s1[:400], order2=o2, out2=s2[:400])
        return res
    key = next(iter(outs))
    if key.startswith("!"):
        return res  # a rejected construction (C14's business), consistently rejected in every order
    sql = json.loads(key)[0]
    complete = {"select": "select" in fams, "insert": "values" in fams, "insert_select": "select" in fams,
                "update": "set" in fams, "delete": True, "setop": True}[kind]
    if kind == "setop":
        sym = check_setop_tail(sql, lexd, d)
        if sym:
            res.violate("C13|setop|%s|%s" % (sym, d), "set operation is not well-formed: %s" % sym, dialect=d, calls=[alpha[i][1] for i in comb], sql=sql)
        return res
    if not complete:
        if sql != "":
            res.violate("C13|%s|incomplete-renders-fragment" % kind, "an incomplete builder renders %r instead of ''" % sql[:120],
                        dialect=d, calls=[alpha[i][1] for i in comb])
        return res
    sym = check_skeleton(sql, lexd, kind) or check_presence(sql, lexd, kind, d, [alpha[i] for i in comb])
    if sym:
        res.violate("C13|%s|%s|%s" % (kind, sym.split(":")[0] if sym.startswith("unlexable") else sym, d if "order" in sym or "unexpected" in sym else "any"),
                    "statement is not well-formed: %s" % sym, dialect=d, calls=[alpha[i][1] for i in comb], sql=sql)
        return res
    sqlite_ok = not (SQLITE_UNSUPPORTED & (set(fams) | set(names)))
    if "having" in fams and "group" not in fams:
        sqlite_ok = False  # SQLite wants GROUP BY with HAVING
    if kind == "insert_select" and ("from" not in fams or "conflict" in fams):
        sqlite_ok = False  # (INSERT..SELECT..ON CONFLICT needs a WHERE in SQLite: parsing ambiguity, not demanded)
    if any(alpha[i][1][0] == "where" and "zz" in json.dumps(alpha[i][1]) for i in comb):
        sqlite_ok = False  # refers to a table outside the statement
    if d == "sqlite" and sqlite_ok:
        err = sqlite_accepts(sql)
        res.transitions += 1
        if err and not (kind == "select" and "where" in fams and "no such column: u.x" in err):
            res.violate("C13|%s|sqlite-rejects|%s" % (kind, err.split(":")[0][:40]), "SQLite rejects the statement: %s" % err, calls=[alpha[i][1] for i in comb], sql=sql)
    return res


def describe():
    return {
        "rule": "per statement kind (SELECT, INSERT..VALUES, INSERT..SELECT, UPDATE, DELETE, CREATE TABLE) and dialect: every "
                "multiset of <= N clause-setting calls of the alphabet (23 / 9 / 6 / 10 / 6 / 11 calls) and every linear "
                "extension of the dependency order; non-trivial = more than one extension; outcomes = distinct statements",
        "bound": {"quick": "N = 3 (DDL 4)", "thorough": "N = 4 (DDL 5)"},
        "assumptions": ["calls of one clause family accumulate in call order and therefore keep their relative order; the entry "
                        "call (from_/into/update/create_table) is first; arguments are Field objects, not strings",
                        "clause order tables per statement kind in ORDER; SQLite acceptance only for clauses SQLite has"],
    }
