"""C14 — invalid constructions are rejected with library exceptions; valid ones never are.

Bounded-exhaustive program enumeration with an independent availability model:
  joins      base source shape x existing join x joined item x criterion shape x operand-table assignment (both
             operand orders, same/different column names, function / unary-minus / subquery operands) x on/on_field/using/cross
  setops     select-list lengths 1..3 on either side, chains of 3, nesting
  conflict   every sequence of length <= 4 over {on_conflict(), on_conflict(f), do_nothing, do_update, where}
  case       Case() without when, at any position
  returning  PostgreSQL returning() on SELECT / DML x own table / foreign table / literal / function / star
  oneshot    every one-shot call repeated
Expected outcome (reference model): the documented exception class at the documented call iff the construction
is invalid.  A missed rejection, a false rejection, or a non-library exception on a valid program is a violation.
"""
from __future__ import annotations

import itertools

from mc.common import Result, h64
from mc import fp, prog

from pypika_tortoise import AliasedQuery, Case, Field, Query, Table
from pypika_tortoise import functions as FN
from pypika_tortoise import analytics as AN
from pypika_tortoise import terms as T
from pypika_tortoise.dialects import MySQLQuery, PostgreSQLQuery
from pypika_tortoise.exceptions import (CaseException, JoinException, QueryException, RollupException,
                                        SetOperationException)
from pypika_tortoise.terms import SystemTimeValue

PROPERTY = "C14"

LIB_EXC = (CaseException, JoinException, QueryException, RollupException, SetOperationException)

# ---- joins -------------------------------------------------------------------------------------------------------

BASES = ["plain", "aliased", "schema", "temporal", "subq", "subq_aliased", "setop", "cte", "two_from", "update"]
ITEMS = ["plain", "aliased", "self", "subq", "cte_ref", "schema"]
PREV = [False, True]
# operand table roles
ROLES = ["base", "item", "prev", "absent", "base_twin", "base_other_alias", "item_twin", "none", "declared_cte", "base_other_schema", "base_twin_mysql_cls",
         "absent_subquery", "absent_setop", "absent_aliased_subquery"]
CRITS = ["eq", "eq_swapped", "eq_samecol", "and_third", "or_third", "func", "neg", "in_sub_absent", "eq_scalar_sub", "between"]


def mk_base(kind):
    """-> (query builder with FROM set, base source object, factory for an equal-but-distinct table or None)"""
    Q = Query
    if kind == "plain":
        t = Table("t")
        return Q.from_(t), t, lambda: Table("t")
    if kind == "aliased":
        t = Table("t", alias="ta")
        return Q.from_(t), t, lambda: Table("t", alias="ta")
    if kind == "schema":
        t = Table("t", schema="s")
        return Q.from_(t), t, lambda: Table("t", schema=["s"])
    if kind == "temporal":
        t = Table("t").for_(SystemTimeValue().as_of("2020-01-01"))
        return Q.from_(t), t, lambda: Table("t")
    if kind == "subq":
        s = Q.from_(Table("w")).select("id", "x", "y")
        return Q.from_(s), s, None
    if kind == "subq_aliased":
        s = Q.from_(Table("w")).select("id", "x", "y").as_("sa")
        return Q.from_(s), s, None
    if kind == "setop":
        s = Q.from_(Table("w")).select("id", "x", "y").union(Q.from_(Table("w2")).select("id", "x", "y"))
        return Q.from_(s), s, None
    if kind == "cte":
        body = Q.from_(Table("w")).select("id", "x", "y")
        a = AliasedQuery("c0")
        return Q.with_(body, "c0").from_(a), a, lambda: AliasedQuery("c0")
    if kind == "two_from":
        t = Table("t")
        return Q.from_(Table("t0")).from_(t), t, lambda: Table("t")
    if kind == "update":
        t = Table("t")
        return Q.update(t), t, lambda: Table("t")
    raise ValueError(kind)


def mk_item(kind, q):
    if kind == "plain":
        return q, Table("u"), lambda: Table("u")
    if kind == "aliased":
        return q, Table("u", alias="ua"), lambda: Table("u", alias="ua")
    if kind == "schema":
        return q, Table("u", schema="s"), lambda: Table("u", schema="s")
    if kind == "self":
        return q, Table("t", alias="t_self"), lambda: Table("t", alias="t_self")
    if kind == "subq":
        return q, Query.from_(Table("w3")).select("id", "x", "y"), None
    if kind == "cte_ref":
        q = q.with_(Query.from_(Table("w4")).select("id", "x", "y"), "c1")
        return q, AliasedQuery("c1"), lambda: AliasedQuery("c1")
    raise ValueError(kind)


def role_table(role, base, base_twin, item, item_twin, prev):
    """-> (table object for the operand, is_available) ; None if the role does not exist in this program"""
    if role == "base":
        return base, True
    if role == "item":
        return item, True
    if role == "prev":
        return (prev, True) if prev is not None else None
    if role == "absent":
        return Table("zz"), False
    if role == "absent_subquery":  # an un-aliased subquery / set operation that is no source of the statement
        return Query.from_(Table("elsewhere")).select("id", "x", "y"), False
    if role == "absent_setop":
        return Query.from_(Table("elsewhere")).select("id", "x", "y").union(Query.from_(Table("elsewhere2")).select("id", "x", "y")), False
    if role == "absent_aliased_subquery":
        return Query.from_(Table("elsewhere")).select("id", "x", "y").as_("zq"), False
    if role == "base_twin":
        return (base_twin(), True) if base_twin else None
    if role == "item_twin":
        return (item_twin(), True) if item_twin else None
    if role == "base_twin_mysql_cls":
        # the same table handed out by another dialect's query class: equal, hence available
        if isinstance(base, Table):
            return Table(base._table_name, schema=base._schema, alias=base.alias, query_cls=MySQLQuery), True
        return None
    if role == "base_other_alias":
        if isinstance(base, Table):
            return Table(base._table_name, schema=base._schema, alias="zz_alias"), False
        return None
    if role == "base_other_schema":
        if isinstance(base, Table):
            other = "zz_schema" if base._schema is None else None
            return Table(base._table_name, schema=other, alias=base.alias), False
        return None
    if role == "none":
        return None, True  # a table-less field refers to no table at all
    if role == "declared_cte":
        return AliasedQuery("cx"), True  # declared with with_() but neither in FROM nor joined
    raise ValueError(role)


def fld(tab, name):
    return Field(name, table=tab) if tab is not None else Field(name)


def mk_crit(shape, A, B, C):
    """A, B, C: operand tables (C = third operand where the shape has one)"""
    if shape == "eq":
        return fld(A, "x") == fld(B, "y"), 2
    if shape == "eq_swapped":
        return fld(B, "y") == fld(A, "x"), 2
    if shape == "eq_samecol":
        return fld(A, "id") == fld(B, "id"), 2
    if shape == "and_third":
        return (fld(A, "id") == fld(B, "id")) & (fld(C, "x") > 1), 3
    if shape == "or_third":
        return (fld(C, "id") == 5) | (fld(A, "id") == fld(B, "id")), 3
    if shape == "func":
        return FN.Coalesce(fld(A, "x"), 0) == FN.Lower(fld(B, "x")), 2
    if shape == "neg":
        return -fld(A, "x") == fld(B, "x") + 1, 2
    if shape == "in_sub_absent":
        return fld(A, "x").isin(Query.from_(Table("elsewhere")).select("k")) & (fld(A, "id") == fld(B, "id")), 2
    if shape == "eq_scalar_sub":
        return (fld(A, "x") == Query.from_(Table("elsewhere")).select(FN.Max(Field("k")))) & (fld(B, "y") > 0), 2
    if shape == "between":
        return fld(A, "x").between(fld(B, "x"), fld(C, "y")), 3
    raise ValueError(shape)


def join_cases(tier):
    roles2 = ROLES if tier == "thorough" else ["base", "item", "prev", "absent", "base_twin", "base_other_alias", "none", "declared_cte", "base_other_schema",
                                                "absent_subquery", "absent_setop", "base_twin_mysql_cls", "item_twin"]
    for b in BASES:
        for it in ITEMS:
            for pv in PREV:
                if b == "update" and pv:
                    continue
                for shape in CRITS:
                    n = 3 if shape in ("and_third", "or_third", "between") else 2
                    for roles in itertools.product(roles2, repeat=n):
                        if tier == "quick" and n == 3 and roles[2] not in ("base", "absent", "prev"):
                            continue
                        yield {"k": "join", "base": b, "item": it, "prev": pv, "shape": shape, "roles": list(roles)}
    for b in BASES:
        for it in ITEMS:
            for how in ("on_none", "on_field", "on_field_none", "using", "using_none", "cross"):
                yield {"k": "joinform", "base": b, "item": it, "how": how}


def run_join(case, res):
    q, base, base_twin = mk_base(case["base"])
    q, item, item_twin = mk_item(case["item"], q)
    # every program declares two more CTEs; a criterion may refer to a declared CTE that is not a source
    q = q.with_(Query.from_(Table("w8")).select("id", "x", "y"), "cw").with_(Query.from_(Table("w9")).select("id", "x", "y"), "cx")
    prev = None
    if case.get("prev"):
        prev = Table("v")
        q = q.join(prev).on(fld(base, "id") == prev.id)
    if case["k"] == "joinform":
        how = case["how"]
        exp = None
        try:
            j = q.join(item)
            if how == "on_none":
                exp = JoinException
                j.on(None)
            elif how == "on_field":
                if case["base"] == "update":
                    return  # on_field needs a FROM table
                j.on_field("id", "x")
            elif how == "on_field_none":
                exp = JoinException
                j.on_field()
            elif how == "using":
                j.using("id")
            elif how == "using_none":
                exp = JoinException
                j.using()
            else:
                j.cross()
            got = None
        except Exception as e:
            got = type(e)
        res.transitions += 1
        res.nontrivial = 1
        if got is not exp:
            res.violate("C14|join-form|%s|%s" % (how, "missed" if got is None else got.__name__),
                        "join form %s: expected %s, got %s" % (how, exp and exp.__name__, got and got.__name__), case=case)
        return
    ops = []
    for r in case["roles"]:
        x = role_table(r, base, base_twin, item, item_twin, prev)
        if x is None:
            return  # role not present in this program
        ops.append(x)
    while len(ops) < 3:
        ops.append(ops[0])
    crit, n = mk_crit(case["shape"], ops[0][0], ops[1][0], ops[2][0])
    valid = all(ok for _, ok in ops[:n])
    res.nontrivial = 1
    res.transitions += 1
    try:
        q2 = q.join(item).on(crit)
        got = None
    except Exception as e:
        got = type(e)
    bad_roles = sorted(set(r for r, (_, ok) in zip(case["roles"], ops[:n]) if not ok))
    res.outcomes.append(h64(repr((valid, got and got.__name__))))
    if valid and got is not None:
        kind = "false-rejection" if got is JoinException else "non-library-exception"
        res.violate("C14|join|%s|%s|base=%s|roles=%s" % (kind, got.__name__, base_class(case["base"]), "+".join(sorted(set(case["roles"])))),
                    "a join condition that refers only to available sources raised %s" % got.__name__, case=case)
    elif not valid and got is not JoinException:
        res.violate("C14|join|%s|%s|%s" % ("missed-rejection" if got is None else "wrong-exception:" + got.__name__,
                                           case["shape"], "+".join(bad_roles)),
                    "a join condition referring to an unavailable table did not raise JoinException (got %s)" % (got and got.__name__), case=case)
    if got is None:
        try:
            str(q2)
        except Exception as e:
            res.violate("C14|join|render-raises|%s" % type(e).__name__, "accepted join fails to render", case=case, error=str(e)[:200])


def base_class(b):
    return {"subq": "subquery", "subq_aliased": "subquery", "setop": "subquery"}.get(b, b)


# ---- set operations -------------------------------------------------------------------------------------------


_SEL_TEXT = {"on": False}


def sel(n, tab="t", star=False):
    t = Table(tab)
    q = Query.from_(t)
    if star:
        return q.select("*")
    q = q.select(*[t.field("c%d" % i) for i in range(n)])
    if _SEL_TEXT["on"]:
        # text with braces, percent signs and backslashes in the statement (whatever the library does with the rendered text of an
        # operand - e.g. quoting it in an error message - must not depend on what it contains)
        q = q.where((t.field("w") == "Dear {name} {0} {} %s %(x)s \\") & (t.field("j") == T.JSON({"k": "{v}"})))
    return q


def setop_cases():
    for op in ("union", "union_all", "intersect", "except_of", "minus"):
        for a in (1, 2, 3):
            for b in (1, 2, 3):
                yield {"k": "setop", "op": op, "lens": [a, b]}
                for c in (1, 2, 3):
                    yield {"k": "setop", "op": op, "lens": [a, b, c]}
    for a in (1, 2):
        for b in (1, 2):
            yield {"k": "setop_nested", "lens": [a, b]}
    for op in ("union", "intersect"):
        for lens in ([1, 2], [2, 2], [2, 1, 2], [2, 2, 1], [1, 1, 1]):
            yield {"k": "setop", "op": op, "lens": lens, "text": True}


def run_setop(case, res):
    _SEL_TEXT["on"] = bool(case.get("text"))
    try:
        _run_setop(case, res)
    finally:
        _SEL_TEXT["on"] = False


def _run_setop(case, res):
    res.nontrivial = 1
    lens = case["lens"]
    if case["k"] == "setop_nested":
        inner = sel(lens[0], "u").union(sel(lens[0], "v"))
        try:
            q = sel(lens[1], "t").union(inner)
            s = str(q)
            got = None
        except Exception as e:
            got = type(e)
        exp = None if lens[0] == lens[1] else SetOperationException
        res.transitions += 1
        if got is not exp:
            res.violate("C14|setop-nested|%s" % ("missed" if got is None else got.__name__),
                        "set operation with a set operation as operand: expected %s got %s" % (exp and exp.__name__, got and got.__name__), case=case)
        return
    q = sel(lens[0])
    try:
        for i, n in enumerate(lens[1:]):
            q = getattr(q, case["op"])(sel(n, "u%d" % i))
        built = True
    except Exception as e:
        built = False
        got = type(e)
    if built:
        try:
            s = str(q)
            got = None
        except Exception as e:
            got = type(e)
    exp = None if len(set(lens)) == 1 else SetOperationException
    res.transitions += 1
    res.outcomes.append(h64(repr((lens, got and got.__name__))))
    if got is not exp:
        res.violate("C14|setop|%s" % ("missed-rejection" if got is None else ("false-rejection" if exp is None else "wrong:" + got.__name__)),
                    "set operation over select lists of lengths %s: expected %s, got %s" % (lens, exp and exp.__name__, got and got.__name__), case=case)


# ---- conflict handlers -----------------------------------------------------------------------------------------

CONF_OPS = ["oc", "oc_f", "nothing", "update", "update_excl", "where"]


def conflict_cases(maxlen):
    for n in range(1, maxlen + 1):
        for seq in itertools.product(CONF_OPS, repeat=n):
            for d in ("generic", "postgresql", "sqlite"):
                yield {"k": "conflict", "seq": list(seq), "d": d}
    for d in ("generic", "postgresql"):
        yield {"k": "conflict_noninsert", "d": d, "stmt": "select"}
        yield {"k": "conflict_noninsert", "d": d, "stmt": "update"}


def conflict_model(seq):
    """reference model of the documented rules -> ('call', i, QueryException) | ('render', QueryException) | ('ok',)"""
    on_conflict = False
    fields = nothing = False
    updates = 0
    for i, op in enumerate(seq):
        if op in ("oc", "oc_f"):
            on_conflict = True
            fields = fields or op == "oc_f"
        elif op == "nothing":
            if updates:
                return ("call", i)
            nothing = True
        elif op in ("update", "update_excl"):
            if nothing:
                return ("call", i)
            updates += 1
        elif op == "where":
            if not on_conflict:
                continue  # plain WHERE of the statement
            if nothing:
                return ("call", i)
            if not fields:
                return ("call", i)
    if on_conflict:
        if not nothing and not updates:
            return ("render",) if fields else ("ok",)
        if updates and not fields:
            return ("render",)
    return ("ok",)


def run_conflict(case, res):
    Q = fp.QCLS[case["d"]]
    t = Table("t")
    res.nontrivial = 1
    if case["k"] == "conflict_noninsert":
        q = Q.from_(t).select(t.a) if case["stmt"] == "select" else Q.update(t).set(t.a, 1)
        try:
            q.on_conflict("id")
            got = None
        except Exception as e:
            got = type(e)
        if got is not QueryException:
            res.violate("C14|conflict|non-insert|%s" % (got and got.__name__), "on_conflict on a non-INSERT statement must raise QueryException", case=case)
        return
    q = Q.into(t).insert(1, 2)
    exp = conflict_model(case["seq"])
    got = ("ok",)
    for i, op in enumerate(case["seq"]):
        try:
            if op == "oc":
                q = q.on_conflict()
            elif op == "oc_f":
                q = q.on_conflict("id")
            elif op == "nothing":
                q = q.do_nothing()
            elif op == "update":
                q = q.do_update("a", 5)
            elif op == "update_excl":
                q = q.do_update("b")
            else:
                q = q.where(t.a > 1)
        except Exception as e:
            got = ("call", i, type(e).__name__)
            break
        res.transitions += 1
    if got == ("ok",):
        try:
            s = str(q)
        except Exception as e:
            got = ("render", type(e).__name__)
    res.outcomes.append(h64(repr(got)))
    want = exp if exp == ("ok",) else exp + ("QueryException",)
    if got != want:
        # which guard?
        guard = "-".join(case["seq"][-2:]) if len(case["seq"]) > 1 else case["seq"][0]
        res.violate("C14|conflict|%s|%s" % ("missed-rejection" if got == ("ok",) else ("false-rejection" if want == ("ok",) else "wrong"), guard),
                    "conflict-handler sequence %s: expected %s, got %s" % (case["seq"], want, got), case=case)


# ---- CASE, RETURNING, one-shot calls -----------------------------------------------------------------------------


def misc_cases():
    for pos in ("select", "where", "nested", "func_arg", "orderby"):
        for n in (0, 1):
            for els in (False, True):
                yield {"k": "case", "pos": pos, "whens": n, "else": els}
    for stmt in ("select", "insert", "update", "delete", "update_join", "update_from", "update_via_table", "insert_via_table"):
        for what in ("str", "own_field", "foreign_field", "literal", "arith_own", "arith_foreign", "function", "star", "aggregate",
                     "joined_field", "from_field", "arith_mixed", "arith_mixed_swapped", "tuple_mixed",
                     "same_name_other_schema", "same_name_nested_schema", "alias_named_like_target", "same_name_other_schema_arith",
                     "own_field_equal_twin"):
            yield {"k": "returning", "stmt": stmt, "what": what}
    for name in ("into", "update", "delete", "delete_after_select", "update_after_select", "create_table", "primary_key", "drop_table",
                 "for_", "for_portion", "for_then_portion", "mysql_rollup", "rows_range", "columns_after_as_select",
                 "as_select_after_columns", "select_str_no_from", "mysql_rollup_empty", "insert_no_table", "columns_no_table",
                 "into_same_object", "into_same_object_after_insert", "into_equal_table", "into_via_table_api", "update_same_object",
                 "update_same_object_after_set", "update_via_table_api", "create_table_same_name", "drop_table_same_name", "for_same_object"):
        yield {"k": "oneshot", "name": name}
    # rollup(): every sequence of up to three calls over {plain, mysql without terms, mysql with a term} on a query with /
    # without GROUP BY; reference model: WITH ROLLUP closes the clause (any later rollup() is rejected), a mysql rollup
    # without any group is rejected, everything else is accepted
    kinds = ("plain", "mysql", "mysql_term")
    for n in (1, 2, 3):
        for seq in itertools.product(kinds, repeat=n):
            for grouped in (False, True):
                for cls in ("generic", "mysql"):
                    yield {"k": "rollup_seq", "seq": list(seq), "grouped": grouped, "cls": cls}


def run_case_term(case, res):
    t = Table("t")
    c = Case()
    if case["whens"]:
        c = c.when(t.a == 1, 2)
    if case.get("else"):
        c = c.else_(t.b)  # an ELSE branch does not make a CASE without WHEN valid
    pos = case["pos"]
    q = {"select": lambda: Query.from_(t).select(c), "where": lambda: Query.from_(t).select(t.a).where(c == 1),
         "nested": lambda: Query.from_(t).select(Case().when(t.b == 1, c).else_(0)),
         "func_arg": lambda: Query.from_(t).select(FN.Coalesce(c, 0)), "orderby": lambda: Query.from_(t).select(t.a).orderby(c)}[pos]
    res.nontrivial = 1
    try:
        str(q())
        got = None
    except Exception as e:
        got = type(e)
    exp = None if case["whens"] else CaseException
    res.transitions += 1
    if got is not exp:
        res.violate("C14|case|%s|%s" % (pos, "missed" if got is None else got.__name__), "CASE with %d WHEN at %s: expected %s got %s"
                    % (case["whens"], pos, exp and exp.__name__, got and got.__name__), case=case)


def run_returning(case, res):
    Q = PostgreSQLQuery
    t, u = Table("t"), Table("u")
    stmt = case["stmt"]
    q = {"select": lambda: Q.from_(t).select(t.a), "insert": lambda: Q.into(t).insert(1, 2),
         "update": lambda: Q.update(t).set(t.a, 1), "delete": lambda: Q.from_(t).delete(),
         "update_join": lambda: Q.update(t).join(u).on(t.id == u.id).set(t.a, u.x),
         "update_from": lambda: Q.update(t).from_(u).set(t.a, u.x).where(t.id == u.id),
         # the statement started by the table's own method (the table was handed out by the PostgreSQL class)
         "update_via_table": lambda: Q.Table("t").update().set(t.a, 1),
         "insert_via_table": lambda: Q.Table("t").insert(1, 2)}[stmt]()
    what = case["what"]
    dml = stmt != "select"
    if what in ("joined_field",) and stmt != "update_join":
        return
    if what == "from_field" and stmt != "update_from":
        return
    arg = {"str": "id", "own_field": t.id, "foreign_field": Table("zz").x, "literal": 1, "arith_own": t.a + 1,
           "arith_foreign": Table("zz").x + 1, "function": FN.Lower(t.a), "star": "*", "aggregate": FN.Count(t.a),
           "joined_field": u.x, "from_field": u.x, "arith_mixed": t.a + Table("zz").x, "arith_mixed_swapped": Table("zz").x + t.a,
           "tuple_mixed": (t.a, Table("zz").x),
           # tables that only share the written name with the statement's table are other tables
           "same_name_other_schema": Table("t", schema="archive").x, "same_name_nested_schema": Table("t", schema=("db", "s")).x,
           "alias_named_like_target": Table("xyz", alias="t").x, "same_name_other_schema_arith": Table("t", schema="archive").x + 1,
           # an equal but distinct Table object is the same table
           "own_field_equal_twin": Table("t").id}[what]
    if not dml:
        exp = QueryException
    elif what in ("foreign_field", "arith_foreign", "function", "aggregate", "arith_mixed", "arith_mixed_swapped", "tuple_mixed",
                  "same_name_other_schema", "same_name_nested_schema", "alias_named_like_target", "same_name_other_schema_arith"):
        exp = QueryException
    else:
        exp = None
    res.nontrivial = 1
    try:
        q2 = q.returning(arg)
        s = str(q2)
        got = None
    except Exception as e:
        got = type(e)
    res.transitions += 1
    res.outcomes.append(h64(repr((stmt, what, got and got.__name__))))
    if got is not exp:
        res.violate("C14|returning|%s|%s|%s" % (stmt if not dml else "dml", what, "missed-rejection" if got is None else
                                                ("false-rejection" if exp is None else "wrong:" + got.__name__)),
                    "returning(%s) on %s: expected %s, got %s" % (what, stmt, exp and exp.__name__, got and got.__name__), case=case)


def run_rollup_seq(case, res):
    from pypika_tortoise.exceptions import RollupException as RE

    Q = MySQLQuery if case["cls"] == "mysql" else Query
    t = Table("t")
    q = Q.from_(t).select(t.a)
    groups = 0
    if case["grouped"]:
        q = q.groupby(t.a)
        groups = 1
    closed = False
    res.nontrivial = 1
    for i, k in enumerate(case["seq"]):
        if closed:
            exp = AttributeError
        elif k == "mysql" and groups == 0:
            exp = RE
        else:
            exp = None
        try:
            q2 = {"plain": lambda: q.rollup(t.b), "mysql": lambda: q.rollup(vendor="mysql"), "mysql_term": lambda: q.rollup(t.c, vendor="mysql")}[k]()
            str(q2)
            got = None
        except Exception as e:
            got = type(e)
        res.transitions += 1
        if got is not exp:
            res.violate("C14|rollup|%s|%s" % ("after-with-rollup" if closed else k, "missed-rejection" if got is None else
                                              ("false-rejection" if exp is None else "wrong:" + got.__name__)),
                        "rollup sequence %s (step %d): expected %s, got %s" % (case["seq"], i, exp and exp.__name__, got and got.__name__), case=case)
            return
        if exp is not None:
            return
        q = q2
        groups += 1
        if k in ("mysql", "mysql_term"):
            closed = True
    res.outcomes.append(h64(str(q)))


def run_oneshot(case, res):
    from pypika_tortoise.queries import Column

    t = Table("t")
    name = case["name"]
    res.nontrivial = 1
    exp = AttributeError
    f = {
        "into": lambda: Query.into(t).into(Table("u")),
        "update": lambda: Query.update(t).update(Table("u")),
        "delete": lambda: Query.from_(t).delete().delete(),
        "delete_after_select": lambda: Query.from_(t).select(t.a).delete(),
        "update_after_select": lambda: Query.from_(t).select(t.a).update(t),
        "create_table": lambda: Query.create_table("a").create_table("b"),
        "primary_key": lambda: Query.create_table("a").columns("x").primary_key("x").primary_key("x"),
        "drop_table": lambda: Query.drop_table("a").drop_table("b"),
        "for_": lambda: Table("t").for_(SystemTimeValue().as_of("1")).for_(SystemTimeValue().as_of("2")),
        "for_portion": lambda: Table("t").for_portion(SystemTimeValue().from_to("1", "2")).for_portion(SystemTimeValue().from_to("1", "2")),
        "for_then_portion": lambda: Table("t").for_(SystemTimeValue().as_of("1")).for_portion(SystemTimeValue().from_to("1", "2")),
        "mysql_rollup": lambda: MySQLQuery.from_(t).select(t.a).groupby(t.a).rollup(vendor="mysql").rollup(vendor="mysql"),
        "rows_range": lambda: AN.Sum(t.a).over(t.b).rows(AN.Preceding(1)).range(AN.Preceding(1)),
        "columns_after_as_select": lambda: Query.create_table("a").as_select(Query.from_(t).select(t.a)).columns("x"),
        "as_select_after_columns": lambda: Query.create_table("a").columns("x").as_select(Query.from_(t).select(t.a)),
        # the repeated call with the very same argument object / an equal one / after other calls / through the table's own method
        "into_same_object": lambda: Query.into(t).into(t),
        "into_same_object_after_insert": lambda: Query.into(t).insert(1).into(t),
        "into_equal_table": lambda: Query.into(t).into(Table("t")),
        "into_via_table_api": lambda: t.insert(1).into(t),
        "update_same_object": lambda: Query.update(t).update(t),
        "update_same_object_after_set": lambda: Query.update(t).set(t.a, 1).update(t),
        "update_via_table_api": lambda: t.update().update(t),
        "create_table_same_name": lambda: Query.create_table("a").create_table("a"),
        "drop_table_same_name": lambda: Query.drop_table("a").drop_table("a"),
        "for_same_object": lambda: (lambda c: Table("t").for_(c).for_(c))(SystemTimeValue().as_of("1")),
        "insert_no_table": lambda: Query.from_(t).insert(1),
        "columns_no_table": lambda: Query.from_(t).columns("a"),
    }
    if name == "select_str_no_from":
        exp, fn = QueryException, (lambda: Query.select("a"))
    elif name == "mysql_rollup_empty":
        exp, fn = RollupException, (lambda: MySQLQuery.from_(t).select(t.a).rollup(vendor="mysql"))
    else:
        fn = f[name]
    try:
        fn()
        got = None
    except Exception as e:
        got = type(e)
    res.transitions += 1
    if got is not exp:
        res.violate("C14|oneshot|%s|%s" % (name, "missed" if got is None else got.__name__),
                    "repeated / misplaced one-shot call %s: expected %s, got %s" % (name, exp.__name__, got and got.__name__), case=case)


# ---- plumbing ------------------------------------------------------------------------------------------------------


def joinzoo_cases():
    from mc import zoo

    Z, _ = zoo.term_zoo()
    for name, n, build in Z:
        if n == 0 or name in ("QueryBuilder", "_SetOperation", "ContainsCriterion.sub", "Star"):
            continue  # (subqueries have their own scope)
        for slot in range(n):
            for depth in (1, 2):
                if depth == 2 and name in ("Values", "AtTimezone"):
                    continue  # these constructors take a column (name or Field) only, not an expression
                for stmt in ("join", "pg_returning"):
                    yield {"k": "joinzoo", "term": name, "slot": slot, "depth": depth, "stmt": stmt}
        yield {"k": "joinzoo", "term": name, "slot": -1, "depth": 1, "stmt": "join"}
        yield {"k": "joinzoo", "term": name, "slot": -1, "depth": 2, "stmt": "join"}


_ZOO_BY = None


def run_joinzoo(case, res):
    """every term kind, with a column of a table that is no source of the statement in one operand slot (directly, or one level
    down inside a function call): join validation / RETURNING validation must see it; with own columns only it must pass"""
    global _ZOO_BY
    from mc import zoo
    from pypika_tortoise.terms import Criterion

    if _ZOO_BY is None:
        _ZOO_BY = {n: (k, b) for n, k, b in zoo.term_zoo()[0]}
    n, build = _ZOO_BY[case["term"]]
    t, u, zz = Table("t"), Table("u"), Table("zz")
    flds = []
    for i in range(n):
        tab = zz if i == case["slot"] else t
        f = Field("c%d" % i, table=tab)
        if case["depth"] == 2:
            f = FN.Coalesce(f, Field("d%d" % i, table=t))
        flds.append(f)
    try:
        term = build(flds)
    except Exception:
        return  # this term kind does not take an expression in that slot
    exp = None if case["slot"] < 0 else (JoinException if case["stmt"] == "join" else QueryException)
    res.nontrivial = 1
    res.transitions += 1
    try:
        if case["stmt"] == "join":
            crit = (term & (t.id == u.id)) if isinstance(term, Criterion) else ((term == u.id) & (t.id == u.id))
            str(Query.from_(t).join(u).on(crit).select(t.id))
        else:
            str(PostgreSQLQuery.update(t).set(t.a, 1).returning(term))
        got = None
    except Exception as e:
        got = type(e)
    res.outcomes.append(h64(repr((case["term"], got and got.__name__))))
    if case["stmt"] == "pg_returning" and got is QueryException and exp is QueryException:
        return
    if case["stmt"] == "pg_returning" and exp is None:
        return
    if got is not exp:
        if exp is None and got is not None and got.__name__ in ("JoinException",) and case["depth"] == 2:
            pass
        cls = case["term"].split(".")[0] if not case["term"].startswith(("functions.", "analytics.")) else case["term"]
        res.violate("C14|%s|zoo|%s|%s" % ("join" if case["stmt"] == "join" else "returning", cls, "missed-rejection" if got is None else
                                          ("false-rejection" if exp is None else "wrong:" + got.__name__)),
                    "term %s with a foreign column in slot %d (depth %d): expected %s, got %s" % (case["term"], case["slot"], case["depth"],
                                                                                              exp and exp.__name__, got and got.__name__), case=case)


def joinchain_cases():
    """chains of n = 2..5 joins: the ON criterion of the last join refers to source number `ref` of the statement (0 = FROM
    table, i = the i-th joined item, n+1 = a table that is nowhere in the statement)"""
    for d in fp.CTX:
        for n in (2, 3, 4, 5):
            for ref in range(0, n + 1):
                for item in ("table", "aliased", "subquery"):
                    yield {"k": "joinchain", "d": d, "n": n, "ref": ref, "item": item}


def run_joinchain(case, res):
    from pypika_tortoise import Table

    d, n, ref, kind = case["d"], case["n"], case["ref"], case["item"]
    Q = fp.QCLS[d]
    res.nontrivial = 1

    def mk(i):
        if kind == "table":
            return Table("j%d" % i)
        if kind == "aliased":
            return Table("same", alias="a%d" % i)
        return Q.from_(Table("s%d" % i)).select("id", "k").as_("q%d" % i)

    srcs = [Table("t0")] + [mk(i) for i in range(1, n + 1)]
    absent = Table("nowhere") if kind != "aliased" else Table("same", alias="zz")
    q = Q.from_(srcs[0]).select(srcs[0].id)
    try:
        for i in range(1, n):
            q = q.join(srcs[i]).on(srcs[i - 1].id == srcs[i].id)
    except Exception as e:
        res.violate("C14|joinchain|prefix-raises|%s" % type(e).__name__, "a linear chain of valid joins was rejected", dialect=d, n=n, item=kind, error=str(e)[:200])
        return
    other = srcs[ref] if ref < n else absent
    res.transitions += 1
    try:
        q2 = q.join(srcs[n]).on(other.k == srcs[n].id)
        out = "ok"
        sql = prog.render(q2, d)[0]
    except JoinException:
        out, sql = "JoinException", None
    except Exception as e:
        out, sql = type(e).__name__, str(e)[:200]
    res.outcomes.append(h64(out))
    if ref < n and out != "ok":
        res.violate("C14|joinchain|false-rejection|%s" % out, "join number %d refers to source number %d of the statement, which is available, and was rejected" % (n, ref),
                    dialect=d, n=n, ref=ref, item=kind, error=sql)
    elif ref == n and out != "JoinException":
        res.violate("C14|joinchain|missed-rejection", "join number %d refers to a table that is nowhere in the statement and was accepted" % n,
                    dialect=d, n=n, item=kind, got=out, sql=sql)


def chunks(tier, seed):
    out = [{"part": "join", "base": b, "tier": tier} for b in BASES]
    out.append({"part": "joinzoo"})
    out.append({"part": "joinchain"})
    out += [{"part": "setop"}, {"part": "conflict", "maxlen": 3 if tier == "quick" else 4}, {"part": "misc"}]
    return out


def expand(chunk):
    p = chunk["part"]
    if p == "join":
        for c in join_cases(chunk["tier"]):
            if c["base"] == chunk["base"]:
                yield c
    elif p == "joinzoo":
        yield from joinzoo_cases()
    elif p == "joinchain":
        yield from joinchain_cases()
    elif p == "setop":
        yield from setop_cases()
    elif p == "conflict":
        yield from conflict_cases(chunk["maxlen"])
    else:
        yield from misc_cases()


def run_case(case):
    res = Result()
    k = case["k"]
    if k in ("join", "joinform"):
        run_join(case, res)
    elif k.startswith("setop"):
        run_setop(case, res)
    elif k.startswith("conflict"):
        run_conflict(case, res)
    elif k == "case":
        run_case_term(case, res)
    elif k == "returning":
        run_returning(case, res)
    elif k == "joinzoo":
        run_joinzoo(case, res)
    elif k == "joinchain":
        run_joinchain(case, res)
    elif k == "rollup_seq":
        run_rollup_seq(case, res)
    else:
        run_oneshot(case, res)
    res.states.append(h64(repr(sorted(case.items()))))
    return res


def describe():
    return {
        "rule": "join programs = 10 base shapes x 6 joined items x {no, one} existing join x 10 criterion shapes x all "
                "assignments of operand-table roles {base, item, previous join, absent, equal-but-distinct twin, other alias, "
                "table-less}; join forms on(None)/on_field/using/cross; set operations of select-list lengths 1..3 (pairs, "
                "chains, nested); conflict-handler call sequences of length <= 3/4; CASE with 0/1 WHEN at 5 positions; "
                "PostgreSQL returning() 6 statements x 11 argument kinds; 19 one-shot/misplaced calls",
        "bound": {"quick": "roles without item_twin; conflict sequences <= 3", "thorough": "all roles; conflict sequences <= 4"},
        "assumptions": ["availability model: FROM sources, UPDATE table, declared CTEs, earlier joins, the joined item; tables are "
                        "identified by (name, schema, alias), subqueries by object/alias, CTEs by name",
                        "a table-less Field refers to no table and is therefore always acceptable",
                        "AttributeError is the documented exception of repeated one-shot calls"],
    }
