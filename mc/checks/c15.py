"""C15 — copy, deepcopy and pickle round-trips preserve and decouple objects.

Explicit-state exploration: object graphs = every seed of every builder/term family and each depth-1 successor
(the C02 corpus) x {copy.copy, copy.deepcopy, pickle protocols 0..5}; for the seeds additionally every builder
call of the family's alphabet applied to the duplicate and to the original.  Oracle: the duplicate has the same
type and the same observation (six dialect contexts, inline and parameterised) as the original; a builder call
on one side never changes the observation of the other; dynamic attribute lookup still yields Fields.
"""
from __future__ import annotations

import copy
import pickle

from mc.common import Result, h64
from mc import fp
from mc.fp import obs, obs_diff
from mc.checks import c01, c02

from pypika_tortoise.queries import Schema, Selectable
from pypika_tortoise.terms import Field, Not

PROPERTY = "C15"

MECHS = {
    "copy": copy.copy,
    "deepcopy": copy.deepcopy,
    "pickle0": lambda o: pickle.loads(pickle.dumps(o, 0)),
    "pickle1": lambda o: pickle.loads(pickle.dumps(o, 1)),
    "pickle2": lambda o: pickle.loads(pickle.dumps(o, 2)),
    "pickle3": lambda o: pickle.loads(pickle.dumps(o, 3)),
    "pickle4": lambda o: pickle.loads(pickle.dumps(o, 4)),
    "pickle5": lambda o: pickle.loads(pickle.dumps(o, 5)),
}


def _extras():
    from pypika_tortoise import AliasedQuery, Database, Query, Schema, Table
    from pypika_tortoise.queries import Column, Cte
    from pypika_tortoise.terms import Interval, ValueWrapper

    def _not_used():
        n = ~Table("t").data
        n.get_json_value("k")  # a delegated method has been looked up (and possibly cached) before duplication
        n.has_key("k2")
        return n

    def _field_of_mutable_sub():
        sub = Query.from_(Table("t"), immutable=False).select("a").as_("ms")
        return sub.a

    return {
        "schema": lambda: Schema("s"),
        "schema_nested": lambda: Database("d").s,
        "table_via_schema": lambda: Database("d").s.tbl,
        "aliased_query": lambda: AliasedQuery("c1", Query.from_(Table("t")).select("a")),
        "aliased_ref": lambda: AliasedQuery("c1"),
        "cte": lambda: Cte("c2", Query.from_(Table("t")).select("a")),
        "not_field": lambda: ~Table("t").flag,
        "not_not": lambda: ~~(Table("t").a == 1),
        "column": lambda: Column("c", "INT", nullable=False, default=3),
        "interval": lambda: Interval(days=2, hours=3),
        "joiner_result": lambda: Query.from_(Table("t")).join(Table("u")).on_field("id").select("*"),
        "immutable_false": lambda: Query.from_(Table("t"), immutable=False).select("a"),
        "not_field_used": _not_used,
        "query_with_used_not": lambda: Query.from_(Table("t")).select("a").where(_not_used()),
        "field_of_mutable_subquery": _field_of_mutable_sub,
        "query_on_mutable_subquery": lambda: (lambda sub: Query.from_(sub).select(sub.a).where(sub.a > 1))(
            Query.from_(Table("t"), immutable=False).select("a").as_("ms")),
        # documents that JSON text does not carry faithfully (tuples, non-string keys) inside a JSON term and a dict constant
        "json_tuple_intkey": lambda: __import__("pypika_tortoise").terms.JSON({1: "one", "t": (1, 2), "n": {2: (3,)}}),
        "json_in_query": lambda: Query.from_(Table("t")).select("a").where(
            Table("t").j.contains({"t": (1, 2)}) & (Table("t").k == __import__("pypika_tortoise").terms.JSON({1: "one", "t": (1, 2)}))),
        "dict_constant_tuple": lambda: Query.from_(Table("t")).select(ValueWrapper({"t": (1, 2), 3: "x"})),
        "wrapper_not_parametrized": lambda: Query.from_(Table("t")).select(ValueWrapper("keep", allow_parametrize=False).as_("k")),
    }


EXTRA = _extras()


def _singleton_extras():
    """Terms that hold one of the library's module-level singleton objects (SqlTypes members): a deep duplicate holds
    an equal, separately built object instead of the singleton itself."""
    from pypika_tortoise import Query, Table
    from pypika_tortoise import functions as FN
    from pypika_tortoise.enums import SqlTypes
    from pypika_tortoise.queries import Column

    out = {}
    for name in sorted(n for n in vars(SqlTypes) if n.isupper()):
        member = getattr(SqlTypes, name)
        out["cast_" + name] = lambda member=member: FN.Cast(Table("t").a, member)
        out["cast_in_query_" + name] = lambda member=member: Query.from_(Table("t")).select(FN.Cast(Table("t").a, member)).where(
            FN.Cast(Table("t").b, member) == "1")
        if isinstance(member, str):
            out["column_" + name] = lambda member=member: Column("c", member)
        if callable(member):
            out["cast_len_" + name] = lambda member=member: FN.Cast(Table("t").a, member(24))
    return out


EXTRA.update(_singleton_extras())


def _wrap_seeds():
    """every term kind of the zoo inside a statement (select list, WHERE, ORDER BY): a shallow copy of the statement
    shares the term objects, so a builder call on the copy must not write through them."""
    from pypika_tortoise import Query, Table
    from pypika_tortoise.terms import Criterion

    out = {}
    for name, (n, b) in c01._ZOO_BY_NAME.items():
        def seed(b=b, n=n):
            t = Table("t")
            term = b([t.field("c%d" % i) for i in range(max(n, 1))])
            q = Query.from_(t).select(term)
            try:
                q = q.where(term if isinstance(term, Criterion) else term == 1)
            except Exception:
                pass
            return q

        try:
            seed().get_sql()
        except Exception:
            continue
        out[name] = seed
    return out


WRAP = _wrap_seeds()
WRAP_OPS = {
    "replace_table:t": lambda q: q.replace_table(c01.A(_T("t")), c01.A(_T("tt"))),
    "replace_table:self": lambda q: q.replace_table(c01.A(_T("t")), c01.A(_T("t", alias="x"))),
}


def _T(*a, **k):
    from pypika_tortoise import Table
    return Table(*a, **k)


def build(key):
    if key[0] == "extra":
        return EXTRA[key[1]]()
    if key[0] == "wrap":
        return WRAP[key[1]]()
    return c02.build(key)


def chunks(tier, seed):
    keys = c02.corpus_keys(tier) + [["extra", k, None] for k in EXTRA] + [["wrap", k, None] for k in WRAP]
    out = []
    B = 60
    for i in range(0, len(keys), B):
        out.append({"kind": "dup", "keys": keys[i:i + B]})
    for k in keys:
        if k[2] is None:
            out.append({"kind": "decouple", "key": k})
    return out


def expand(chunk):
    if chunk["kind"] == "dup":
        for k in chunk["keys"]:
            for m in MECHS:
                yield {"kind": "dup", "key": k, "mech": m}
    else:
        # builder-call decoupling: one representative per mechanism family (all protocols are covered by "dup")
        for m in ("copy", "deepcopy", "pickle0", "pickle5"):
            yield {"kind": "decouple", "key": chunk["key"], "mech": m}


def mclass(m):
    return "pickle" if m.startswith("pickle") else m


def _mutables(o):
    """id -> description of every mutable object reachable from o (containers and objects with a __dict__)"""
    import enum
    import types

    out, stack, path = {}, [(o, "")], None
    while stack:
        x, pth = stack.pop()
        if id(x) in out:
            continue
        if isinstance(x, (type, types.FunctionType, types.BuiltinFunctionType, types.ModuleType, enum.Enum, str, bytes, int, float,
                          bool, type(None), tuple, frozenset)) and not isinstance(x, tuple):
            continue
        d = fp.odict(x)
        if isinstance(x, tuple):
            for i, y in enumerate(x):
                stack.append((y, pth))
            continue
        if isinstance(x, (list, set)):
            out[id(x)] = pth or type(x).__name__
            for y in x:
                stack.append((y, pth))
        elif isinstance(x, dict):
            out[id(x)] = pth or "dict"
            for k, y in x.items():
                stack.append((y, pth + "." + str(k)))
        elif d is not None:
            if type(x).__name__ == "SqlContext":
                continue
            out[id(x)] = pth + ":" + type(x).__name__
            for k, y in d.items():
                stack.append((y, pth + "." + k))
    return out


def shared_mutables(a, b):
    ma, mb = _mutables(a), _mutables(b)
    return sorted(ma[i] for i in set(ma) & set(mb))


def dynamic_ok(dup):
    """classes with dynamic attribute lookup must still resolve unknown names to the right things"""
    probs = []
    if isinstance(dup, Not):
        try:
            inner = object.__getattribute__(dup, "__dict__")["term"]
            for attr, val in list(object.__getattribute__(inner, "__dict__").items()):
                if attr in ("alias", "term"):
                    continue
                if getattr(dup, attr) is not val:
                    probs.append("Not does not delegate attribute %s to the wrapped term" % attr)
            if isinstance(inner, Field):
                r = dup.get_json_value("k")
                if not isinstance(r, Not):
                    probs.append("Not(field).get_json_value no longer re-wraps in Not")
        except Exception as e:
            probs.append("Not delegation raises %s" % type(e).__name__)
    elif isinstance(dup, Selectable):
        try:
            f = dup.some_column
            if not isinstance(f, Field) or f.name != "some_column":
                probs.append("attribute access does not give a Field")
            if f.table is not dup:
                probs.append("Field.table is not the duplicate")
            g = dup["other"]
            if not isinstance(g, Field):
                probs.append("item access does not give a Field")
        except Exception as e:
            probs.append("attribute access raises %s" % type(e).__name__)
    for special in ("__deepcopy__", "__getstate__", "__setstate__", "__copy__", "__getnewargs__"):
        v = None
        try:
            v = getattr(dup, special, None)
        except Exception as e:
            probs.append("getattr(%s) raises %s" % (special, type(e).__name__))
        if isinstance(v, Field):
            probs.append("special method %s resolved to a Field" % special)
    return probs


def run_case(case):
    res = Result()
    key, mech = case["key"], case["mech"]
    o = build(key)
    if o is None:
        return res
    tname = type(o).__qualname__
    fam_ops = WRAP_OPS if key[0] == "wrap" else (c02._fam(key[0])[1] if key[0] != "extra" else {})
    if key[0].startswith("mut:"):
        # builders created with immutable=False: their calls work in place, but a duplicate is still a separate statement
        fam_ops = {k_: v_ for k_, v_ in c01.QB_OPS.items() if k_ in ("select:f", "where:t", "groupby:f", "orderby:f", "join:on", "from_:u", "limit", "having")}
    res.nontrivial = 1
    o0 = obs(o)
    res.states.append(h64(repr(key)))
    res.transitions += 1
    try:
        dup = MECHS[mech](o)
    except RecursionError:
        res.violate("C15|%s|recursion|%s" % (mclass(mech), tname), "duplication recursed without bound", key=key, mech=mech)
        return res
    except Exception as e:
        res.violate("C15|%s|raises:%s|%s" % (mclass(mech), type(e).__name__, tname), "duplication raised: %s" % str(e)[:150], key=key, mech=mech)
        return res
    if type(dup) is not type(o):
        res.violate("C15|%s|type-changed|%s" % (mclass(mech), tname), "duplicate has another type %s" % type(dup).__qualname__, key=key, mech=mech)
        return res
    if dup is o and mech != "copy":
        res.violate("C15|%s|identity|%s" % (mclass(mech), tname), "duplicate is the original object", key=key, mech=mech)
    d0 = obs(dup)
    res.outcomes.append(h64(repr(d0)))
    if d0 != o0:
        res.violate("C15|%s|renders-differently|%s" % (mclass(mech), tname), "the duplicate does not render like the original", key=key, mech=mech,
                    diff=obs_diff(o0, d0))
        return res
    if obs(o) != o0:
        res.violate("C15|%s|original-changed|%s" % (mclass(mech), tname), "duplicating changed the original", key=key, mech=mech)
    if mech != "copy":
        shared = shared_mutables(o, dup)
        if shared:
            res.violate("C15|%s|shares-mutable-state|%s|%s" % (mclass(mech), tname, shared[0]),
                        "the deep duplicate shares a mutable object (%s) with the original: a later in-place change of one side "
                        "would change the other" % ", ".join(shared[:3]), key=key, mech=mech)
    for pr in dynamic_ok(dup):
        res.violate("C15|%s|dynamic-attr|%s" % (mclass(mech), tname), pr, key=key, mech=mech)
    if case["kind"] != "decouple":
        return res
    # builder calls on either side never affect the other
    for opk, fn in fam_ops.items():
        # (a) call on the duplicate, original must not change
        a = build(key)
        da = MECHS[mech](a)
        a0 = obs(a)
        del c01._args_out[:]
        try:
            x = fn(da)
        except Exception:
            x = None
        res.transitions += 1
        if obs(a) != a0:
            res.violate("C15|%s|call-on-duplicate-changes-original|%s|%s" % (mclass(mech), tname, opk.split(":")[0]),
                        "builder call %s on the duplicate changed the original" % opk, key=key, mech=mech, op=opk, diff=obs_diff(a0, obs(a)))
        if x is not None and da is not a and obs(da) != a0 and getattr(da, "immutable", True):
            res.violate("C15|%s|call-changes-duplicate-receiver|%s|%s" % (mclass(mech), tname, opk.split(":")[0]),
                        "builder call %s changed the duplicate it was called on" % opk, key=key, mech=mech, op=opk)
        # (b) call on the original, duplicate must not change
        b = build(key)
        db = MECHS[mech](b)
        b0 = obs(db)
        del c01._args_out[:]
        try:
            fn(b)
        except Exception:
            pass
        res.transitions += 1
        if obs(db) != b0:
            res.violate("C15|%s|call-on-original-changes-duplicate|%s|%s" % (mclass(mech), tname, opk.split(":")[0]),
                        "builder call %s on the original changed the duplicate" % opk, key=key, mech=mech, op=opk, diff=obs_diff(b0, obs(db)))
        # the result of the call on the duplicate equals the result of the call on the original
        c = build(key)
        dc = MECHS[mech](c)
        try:
            rc = obs(fn(c))
        except Exception as e:
            rc = type(e).__name__
        try:
            rd = obs(fn(dc))
        except Exception as e:
            rd = type(e).__name__
        res.transitions += 2
        if rc != rd:
            res.violate("C15|%s|continuation-differs|%s|%s" % (mclass(mech), tname, opk.split(":")[0]),
                        "builder call %s gives a different result on the duplicate than on the original" % opk, key=key, mech=mech, op=opk,
                        diff=obs_diff(rc, rd) if isinstance(rc, tuple) and isinstance(rd, tuple) else (rc, rd))
    return res


def describe():
    return {
        "rule": "objects = every seed of every builder/term family and each depth-1 successor (about 6400) x 6 duplication "
                "mechanisms; for the ~250 seeds: x every builder call of the family's alphabet on the duplicate, on the original, "
                "and as a continuation of both; non-trivial = object built; distinct = (object key, mechanism)",
        "bound": {"quick": "as described", "thorough": "same (the space is enumerated completely in both tiers)"},
        "assumptions": ["observation = renderings under six dialect contexts inline and parameterised + str/alias/tables_/fields_",
                        "pickle protocols 0..5 of the running interpreter"],
    }
