"""C16 — replace_table replaces every reference and nothing else.

Bounded-exhaustive: every Term subclass found in the live modules (zoo) with a field of T_old in each operand
slot (T_other elsewhere), depth-2 compositions, and every statement kind with T_old in each clause slot, x table
pairs.  Oracle: namespace-forced rendering of build(T_old).replace_table(T_old, T_new) equals build(T_new) in all
six contexts; no qualifier of T_old remains; T_other untouched; receiver unchanged.
"""
from __future__ import annotations

import json

from mc.common import Result, h64
from mc import fp, zoo
from mc.fp import obs

from pypika_tortoise import AliasedQuery, Case, Field, Query, Table
from pypika_tortoise import functions as FN
from pypika_tortoise.dialects import PostgreSQLQuery, MySQLQuery
from pypika_tortoise.enums import JoinType

PROPERTY = "C16"

ZOO, _UN = zoo.term_zoo()
ZOO_BY = {n: (k, b) for n, k, b in ZOO}

PAIRS = {
    "plain->plain": (lambda: Table("old"), lambda: Table("new")),
    "plain->aliased": (lambda: Table("old"), lambda: Table("new", alias="nw")),
    "aliased->plain": (lambda: Table("old", alias="ol"), lambda: Table("new")),
    "schema->plain": (lambda: Table("old", schema="sc"), lambda: Table("new")),
    # pairs whose "other" tables are near twins of old (see NEAR_TWINS)
    "deep_schema->plain": (lambda: Table("old", schema=("live", "db", "sch")), lambda: Table("new")),
    "deep4_schema->plain": (lambda: Table("old", schema=("srv1", "inst", "db", "sch")), lambda: Table("new")),
    "aliased->aliased": (lambda: Table("old", alias="o1"), lambda: Table("new", alias="n1")),
    "schema->schema": (lambda: Table("old", schema="sc"), lambda: Table("old", schema="sc2")),
    # the replaced table is merged into the table every other slot already uses (a multi-table statement becomes single-table)
    "plain->oth": (lambda: Table("old"), lambda: Table("oth")),
    # near twins by path: the other table's schema path is a proper suffix / prefix-less form of old's, or old's qualified name
    # written as one dotted name
    "deep_schema->plain/suffix": (lambda: Table("old", schema=("live", "db", "sch")), lambda: Table("new")),
    "schema2->plain/longer": (lambda: Table("old", schema=("db", "sch")), lambda: Table("new")),
    "schema->plain/dotted": (lambda: Table("old", schema="sc"), lambda: Table("new")),
    "none->table": (lambda: None, lambda: Table("new")),
    "none->aliased": (lambda: None, lambda: Table("new", alias="nw")),  # (an aliased table is qualified even where names stay bare)
    "table->none": (lambda: Table("old"), lambda: None),
}


_OTHER = {"mk": None}


def other():
    """a table that is not the replaced one; for the near-twin pairs it differs from `old` in the outermost qualifier / the
    alias only (references to it must stay what they are)"""
    return _OTHER["mk"]() if _OTHER["mk"] else Table("oth")


NEAR_TWINS = {
    "deep_schema->plain": lambda: Table("old", schema=("archive", "db", "sch")),
    "deep4_schema->plain": lambda: Table("old", schema=("srv2", "inst", "db", "sch")),
    "aliased->aliased": lambda: Table("old", alias="o2"),
    "schema->schema": lambda: Table("old"),
    "deep_schema->plain/suffix": lambda: Table("old", schema=("db", "sch")),
    "schema2->plain/longer": lambda: Table("old", schema=("live", "db", "sch")),
    "schema->plain/dotted": lambda: Table("sc.old"),
}


def fld(tab, name):
    return Field(name, table=tab) if tab is not None else Field(name)


# ---- statements with one table per clause slot ----------------------------------------------------------------


def s_select(tab, Q=Query):
    t = tab
    sub_in = Q.from_(t("in_sub_from")).select(fld(t("in_sub_sel"), "i")).where(fld(t("in_sub_where"), "w") == 1)
    q = (Q.from_(t("from")).join(t("join")).on(fld(t("from"), "id") == fld(t("join"), "id"))
         .select(fld(t("select"), "a"), (fld(t("select_arith"), "b") + 1).as_("x"), FN.Count(fld(t("select_fn"), "c")))
         .where(fld(t("where"), "w") > 1).where(fld(t("where_in"), "wi").isin(sub_in))
         .groupby(fld(t("group"), "g")).having(FN.Sum(fld(t("having"), "h")) > 2).orderby(fld(t("order"), "o")))
    return q


def s_select2(tab, Q=Query):
    t = tab
    inner = Q.from_(t("sub_from")).select(fld(t("sub_sel"), "s"))
    q = (Q.from_(inner).join(t("join"), JoinType.left).using("id").select(inner.s, t("star").star if t("star") is not None else Field("z"))
         .prewhere(fld(t("prewhere"), "p") == 0)
         .select(Q.from_(t("selsub_from")).select(fld(t("selsub_sel"), "m")).limit(1)))
    return q


def s_cross(tab, Q=Query):
    t = tab
    sub = Q.from_(t("sub_from")).select(fld(t("sub_sel"), "s")).as_("sj")
    return Q.from_(t("from")).join(t("cross")).cross().join(sub).on(fld(t("from"), "id") == sub.s).select(fld(t("select"), "a"))


def s_cte(tab, Q=Query):
    t = tab
    body = Q.from_(t("cte_from")).select(fld(t("cte_sel"), "c")).where(fld(t("cte_where"), "w") == 1)
    return Q.with_(body, "cte1").from_(AliasedQuery("cte1")).select("*").where(fld(t("where"), "w") == 2)


def s_insert(tab, Q=Query):
    t = tab
    return (Q.into(t("into")).columns(fld(t("columns"), "a"), fld(t("columns"), "b")).insert(fld(t("values"), "v"), 1)
            .on_conflict(fld(t("conflict_target"), "id")).do_update(fld(t("do_update_field"), "a"), fld(t("do_update_value"), "dv") + 1)
            .where(fld(t("conflict_where"), "cw") > 0))


def s_shared_terms(tab, Q=Query):
    """one column object in several clauses (the user kept it in a variable)"""
    t = tab
    col, col2 = fld(t("col"), "x"), fld(t("col2"), "y")
    expr = col2 + 1
    return (Q.from_(t("from")).select(col, expr).where(col > 1).groupby(col, expr).having(FN.Count(col) > 0).orderby(col).orderby(expr))


def s_update_set_twice(tab, Q=Query):
    """one column assigned twice (and a column of another table of the same name assigned as well)"""
    t = tab
    return (Q.update(t("update")).set(fld(t("set_lhs"), "counter"), 0).set(fld(t("set_lhs2"), "name"), fld(t("set_rhs"), "r"))
            .set(fld(t("set_lhs3"), "counter"), fld(t("set_rhs3"), "counter") + 1).where(fld(t("where"), "w") == 3))


def s_insert_both_wheres(tab, Q=Query):
    t = tab
    return (Q.into(t("into")).columns(fld(t("columns"), "a")).insert(fld(t("values"), "v"))
            .on_conflict(fld(t("conflict_target"), "id")).where(fld(t("conflict_where"), "cw") > 0)
            .do_update(fld(t("do_update_field"), "a"), fld(t("do_update_value"), "dv") + 1)
            .where(fld(t("do_update_where"), "uw") < 5).where(fld(t("do_update_where2"), "ux") < 6))


def s_insert_target_where_only(tab, Q=Query):
    t = tab
    return (Q.into(t("into")).columns("a").insert(1)
            .on_conflict(fld(t("conflict_target"), "id")).where(fld(t("conflict_where"), "cw") > 0).where(fld(t("conflict_where2"), "cx") > 1)
            .do_nothing())


def s_insert_select(tab, Q=Query):
    t = tab
    return Q.into(t("into")).columns("a").from_(t("from")).select(fld(t("select"), "s")).where(fld(t("where"), "w") == 3)


def s_update(tab, Q=Query):
    t = tab
    return (Q.update(t("update")).set(fld(t("set_lhs"), "a"), fld(t("set_rhs"), "r") + 1).where(fld(t("where"), "w") == 3))


def s_update_from(tab, Q=Query):
    t = tab
    return Q.update(t("update")).from_(t("from")).set(fld(t("set_lhs"), "a"), fld(t("set_rhs"), "r")).where(fld(t("where"), "id") == fld(t("where2"), "id"))


def s_update_join(tab, Q=Query):
    t = tab
    return Q.update(t("update")).join(t("join")).on(fld(t("from"), "id") == fld(t("join"), "id")).set(fld(t("set_lhs"), "a"), fld(t("set_rhs"), "r"))


def s_delete(tab, Q=Query):
    t = tab
    return Q.from_(t("from")).delete().where(fld(t("where"), "w") == 1)


def s_pg_returning(tab, Q=PostgreSQLQuery):
    t = tab
    return Q.update(t("update")).set(fld(t("set_lhs"), "a"), 1).where(fld(t("where"), "w") == 1).returning(fld(t("update"), "id"), fld(t("update"), "a") + 1)


def s_pg_delete_returning(tab, Q=PostgreSQLQuery):
    t = tab
    return Q.from_(t("from")).delete().where(fld(t("where"), "w") == 1).returning(fld(t("from"), "id"), fld(t("from"), "a") + 1)


def s_join_chain(tab, Q=Query):
    # four joins: every joined item is a slot and is referred to again by the ON criterion of the next join
    t = tab
    return (Q.from_(t("from")).join(t("join1")).on(fld(t("from"), "id") == fld(t("join1"), "id"))
            .join(t("join2"), JoinType.left).on(fld(t("from"), "id") == fld(t("join2"), "id"))
            .join(t("join3")).on(fld(t("join1"), "id") == fld(t("join3"), "id"))
            .join(t("join4"), JoinType.left).on((fld(t("join2"), "id") == fld(t("join4"), "id")) & (fld(t("join3"), "k") > 0))
            .select(fld(t("select"), "a")))


def s_pg_distinct_on(tab, Q=PostgreSQLQuery):
    t = tab
    return Q.from_(t("from")).distinct_on(fld(t("distinct_on"), "d")).select(fld(t("select"), "a"))


def s_setop(tab, Q=Query):
    t = tab
    return Q.from_(t("from")).select(fld(t("select"), "a")).union(Q.from_(t("from2")).select(fld(t("select2"), "b"))).orderby(fld(t("order"), "a"))


def s_twins(tab, Q=Query):
    """items that look alike (same function, same column name) but belong to different tables, in the select list, GROUP BY
    and ORDER BY: replacing one of them must not drag the other along (nor leave it behind)"""
    t = tab
    return (Q.from_(t("from")).join(t("join")).on(fld(t("from"), "id") == fld(t("join"), "id"))
            .select(FN.Sum(fld(t("sel1"), "amount")), FN.Sum(fld(t("sel2"), "amount")), fld(t("sel3"), "k"), fld(t("sel4"), "k"))
            .where((fld(t("w1"), "z") > 1) & (fld(t("w2"), "z") > 1))
            .groupby(FN.Extract("YEAR", fld(t("g1"), "d")), FN.Extract("YEAR", fld(t("g2"), "d")))
            .having((FN.Max(fld(t("h1"), "m")) > 0) & (FN.Max(fld(t("h2"), "m")) > 0))
            .orderby(fld(t("o1"), "x") - 1, fld(t("o2"), "x") - 1))


def s_nested(tab, Q=Query):
    """the table two and three levels below a joined / FROM / IN / select-list subquery"""
    t = tab
    deep = Q.from_(t("d3_from")).select(fld(t("d3_sel"), "a")).where(fld(t("d3_where"), "w") == 1)
    mid = Q.from_(deep).select(deep.a).where(deep.a.isin(Q.from_(t("d2_in_from")).select(fld(t("d2_in_sel"), "i"))))
    joined = Q.from_(mid).select(mid.a).as_("jn")
    in_sub = Q.from_(Q.from_(t("in_d2_from")).select("x")).select("x")
    sel_sub = Q.from_(Q.from_(t("sel_d2_from")).select(fld(t("sel_d2_sel"), "m"))).select("m").limit(1)
    return (Q.from_(t("from")).join(joined).on(fld(t("from"), "id") == joined.a).select(fld(t("select"), "s"), sel_sub)
            .where(fld(t("where"), "w").isin(in_sub)))


def s_from_nested(tab, Q=Query):
    t = tab
    deep = Q.from_(t("d2_from")).select(fld(t("d2_sel"), "a"))
    mid = Q.from_(deep).select(deep.a).where(deep.a > fld(t("d1_where_foreign"), "f"))
    return Q.from_(mid).select(mid.a)


def s_from_multi(tab, Q=Query):
    """the same table several times in one statement: twice in the FROM list, inside a FROM subquery, joined to itself"""
    t = tab
    sub = Q.from_(t("all")).select(fld(t("all"), "a")).where(fld(t("all"), "w") > fld(t("sub_other"), "w"))
    return (Q.from_(t("first")).from_(t("all")).from_(sub).from_(t("all")).from_(t("last"))
            .select(fld(t("all"), "b"), fld(t("first"), "f"), fld(t("last"), "l")).where(fld(t("all"), "z") == 1))


def s_from_first_multi(tab, Q=Query):
    t = tab
    sub = Q.from_(t("all")).select(fld(t("all"), "a"))
    return Q.from_(t("all")).from_(sub).from_(t("all")).select(fld(t("all"), "b")).groupby(fld(t("all"), "b")).orderby(fld(t("all"), "b"))


def s_on_subquery(tab, Q=Query):
    """subqueries inside criteria and values of every clause"""
    t = tab
    on_sub = Q.from_(t("on_sub_from")).select(fld(t("on_sub_sel"), "i"))
    hav_sub = Q.from_(t("having_sub_from")).select(FN.Max(fld(t("having_sub_sel"), "m")))
    case_sub = Q.from_(t("case_sub_from")).select(fld(t("case_sub_sel"), "c")).limit(1)
    return (Q.from_(t("from")).join(t("join")).on((fld(t("from"), "id") == fld(t("join"), "id")) & fld(t("join"), "id").notin(on_sub))
            .select(fld(t("select"), "a"), Case().when(fld(t("case_when"), "k") == 1, case_sub).else_(0))
            .groupby(fld(t("group"), "g")).having(FN.Sum(fld(t("having"), "h")) > hav_sub))


def s_update_set_subquery(tab, Q=Query):
    t = tab
    val = Q.from_(t("set_sub_from")).select(FN.Max(fld(t("set_sub_sel"), "m"))).where(fld(t("set_sub_where"), "w") == fld(t("corr"), "id"))
    return Q.update(t("update")).set(fld(t("set_lhs"), "a"), val).where(fld(t("where"), "w").isin(Q.from_(t("where_sub_from")).select("x")))


def s_cte_update(tab, Q=Query):
    """WITH together with UPDATE / INSERT .. VALUES / DELETE (statements without a FROM list of their own)"""
    t = tab
    body = Q.from_(t("cte_from")).select(fld(t("cte_sel"), "c")).where(fld(t("cte_where"), "w") == 1)
    return (Q.with_(body, "cte1").update(t("update")).set(fld(t("set_lhs"), "a"), 1)
            .where(fld(t("where"), "id").isin(Q.from_(AliasedQuery("cte1")).select("c"))))


def s_cte_insert_values(tab, Q=Query):
    t = tab
    body = Q.from_(t("cte_from")).select(fld(t("cte_sel"), "c"))
    return Q.with_(body, "cte1").into(t("into")).columns("a").insert(Q.from_(AliasedQuery("cte1")).select(FN.Max(Field("c"))))


def s_cte_delete(tab, Q=Query):
    t = tab
    body = Q.from_(t("cte_from")).select(fld(t("cte_sel"), "c"))
    return Q.with_(body, "cte1").from_(t("from")).delete().where(fld(t("where"), "id").isin(Q.from_(AliasedQuery("cte1")).select("c")))


def s_cte_terms(tab, Q=Query):
    """the optional column list of with_(query, name, *terms), two CTEs"""
    t = tab
    b1 = Q.from_(t("cte_from")).select(fld(t("cte_sel"), "n"), fld(t("cte_sel"), "p"))
    b2 = Q.from_(t("cte2_from")).select(fld(t("cte2_sel"), "z"))
    return Q.with_(b1, "tree", "node", "parent").with_(b2, "flat").from_(AliasedQuery("tree")).select("node").where(fld(t("where"), "w") == 2)


def s_setop_nested(tab, Q=Query):
    """set operations whose operands are set operations (grouped), also inside a FROM clause"""
    t = tab
    q1, q2 = Q.from_(t("a_from")).select(fld(t("a_sel"), "a")), Q.from_(t("b_from")).select(fld(t("b_sel"), "a"))
    q3, q4 = Q.from_(t("c_from")).select(fld(t("c_sel"), "a")), Q.from_(t("d_from")).select(fld(t("d_sel"), "a"))
    grouped = (q1 + q2) * (q3 - q4)
    return Q.from_(grouped).select("a").where(fld(t("where"), "w") == 1)


def s_setop_nested_top(tab, Q=Query):
    t = tab
    q1, q2, q3 = (Q.from_(t(k + "_from")).select(fld(t(k + "_sel"), "a")) for k in ("a", "b", "c"))
    return q2 + (q1 - q3)


def s_update_where_foreign(tab, Q=Query):
    """an UPDATE whose WHERE refers to a second table: whether columns are qualified is decided from the statement as it is
    after the replacement"""
    t = tab
    return Q.update(t("update")).set(fld(t("set_lhs"), "a"), fld(t("set_rhs"), "b") + 1).where(fld(t("where_l"), "bal") < fld(t("where_r"), "floor"))


def s_pg_returning_star(tab, Q=PostgreSQLQuery):
    t = tab
    return (Q.update(t("update")).set(fld(t("set_lhs"), "a"), 1).returning("*")
            .returning(fld(t("update"), "price") + fld(t("update"), "tax"), fld(t("update"), "id")))


def s_pg_insert_returning(tab, Q=PostgreSQLQuery):
    t = tab
    return (Q.into(t("into")).columns("a").insert(1).on_conflict("id").do_update("a", fld(t("do_update_value"), "a") + 1)
            .returning(t("into").star if t("into") is not None else Field("z"), fld(t("into"), "a") * 2))


def s_delete_using(tab, Q=Query):
    t = tab
    return Q.from_(t("from")).delete().where(fld(t("where"), "w").isin(Q.from_(t("in_from")).select(fld(t("in_sel"), "i")).where(fld(t("in_where"), "q") == fld(t("corr"), "q"))))


# statements all of whose table-less items are the slots of the menu: replace_table(None, new) must give exactly the statement
# built with `new` in the None slot; the three shapes below hold further table-less items ('*', columns by name), for them only
# the clause structure is compared
NONE_STRUCTURAL = {"pg_returning_star", "select2", "cte", "cte_insert_values"}
STMTS = {f.__name__[2:]: f for f in (s_shared_terms, s_update_set_twice, s_insert_both_wheres, s_insert_target_where_only, s_cte_update, s_cte_insert_values, s_cte_delete, s_cte_terms, s_setop_nested, s_setop_nested_top, s_update_where_foreign, s_from_multi, s_from_first_multi, s_on_subquery, s_update_set_subquery, s_twins, s_nested, s_from_nested, s_pg_returning_star, s_pg_insert_returning, s_delete_using, s_select, s_select2, s_cross, s_cte, s_insert, s_insert_select, s_update, s_update_from, s_update_join,
                                      s_delete, s_pg_returning, s_pg_distinct_on, s_setop, s_pg_delete_returning, s_join_chain)}


def slots_of(fn):
    seen = []

    def tab(name):
        if name not in seen:
            seen.append(name)
        return other()

    fn(tab)
    return seen


SLOTS = {k: slots_of(f) for k, f in STMTS.items()}


def _table_positions():
    """(statement, slot) pairs where the slot's table is a row source / target of the statement (not just the qualifier of
    columns): None cannot stand there"""
    from mc.lexer import lex

    out = set()
    for k, fn in STMTS.items():
        for slot in SLOTS[k]:
            try:
                sql = fn(lambda s_: Table("zz_probe") if s_ == slot else other()).get_sql(fp.CTX["generic"].copy(with_namespace=True))
                toks = lex(sql, "sqlite")
            except Exception:
                out.add((k, slot))
                continue
            if any(t.kind == "ID" and t.value == "zz_probe" and not (i + 1 < len(toks) and toks[i + 1].text == ".") for i, t in enumerate(toks)):
                out.add((k, slot))
    return out


TABLE_POS = _table_positions()

# an expression over the slot's column instead of the bare column (term kinds whose constructor needs a bare column there are
# skipped for this dimension)
INNER = {
    "arith": lambda x: x * 100 + 1,
    "func": lambda x: FN.Lower(x),
    "case": lambda x: Case().when(x == 1, x).else_(0),
}

# depth-2 compositions: an outer term holding a zoo term in one slot
OUTER = {
    "arith": lambda x: x + 1,
    "cmp": lambda x: x == 1,
    "func": lambda x: FN.Coalesce(x, 0),
    "case_then": lambda x: Case().when(Field("q") == 1, x).else_(0),
    "not": lambda x: ~(x == 1),
    "neg": lambda x: -x,
    "in_item": lambda x: Field("q").isin([x, 2]),
    "between_hi": lambda x: Field("q").between(0, x),
    "tuple": lambda x: FN.Coalesce(Field("q"), x),
    "alias": lambda x: x.as_("al"),
}


def chunks(tier, seed):
    out = []
    for name, (n, b) in ZOO_BY.items():
        out.append({"kind": "term", "name": name})
    for st in STMTS:
        out.append({"kind": "stmt", "name": st})
    if tier == "thorough":
        for name, (n, b) in ZOO_BY.items():
            out.append({"kind": "term2", "name": name})
    return out


def expand(chunk):
    if chunk["kind"] == "term":
        n, b = ZOO_BY[chunk["name"]]
        stmt_like = chunk["name"] in ("QueryBuilder", "_SetOperation", "ContainsCriterion.sub")
        for slot in range(max(n, 0)):
            for pair in PAIRS:
                if stmt_like and "none" in pair:
                    continue  # None is not a table a statement can select from
                yield {"kind": "term", "name": chunk["name"], "slot": slot, "pair": pair, "outer": None}
        if n == 0:
            yield {"kind": "term", "name": chunk["name"], "slot": -1, "pair": "plain->plain", "outer": None}
        # the slot holds an expression over the column instead of the bare column
        if not stmt_like and chunk["name"] not in ("Values", "AtTimezone"):  # (these two take a column *name* there)
            for slot in range(n):
                for inner in INNER:
                    for pair in ("plain->plain", "aliased->plain"):
                        yield {"kind": "term", "name": chunk["name"], "slot": slot, "pair": pair, "outer": None, "inner": inner}
    elif chunk["kind"] == "term2":
        n, b = ZOO_BY[chunk["name"]]
        for slot in range(n):
            for o in OUTER:
                if chunk["name"] in ("QueryBuilder", "_SetOperation") and o == "arith":
                    continue  # '+' on a query is UNION, not arithmetic
                for pair in ("plain->plain", "aliased->plain"):
                    yield {"kind": "term", "name": chunk["name"], "slot": slot, "pair": pair, "outer": o}
    else:
        for slot in SLOTS[chunk["name"]]:
            for pair in PAIRS:
                if ("none" in pair or pair == "plain->oth") and (chunk["name"], slot) in TABLE_POS:
                    continue  # None cannot be a row source / target (slots that only qualify columns can hold it); merging two
                    # row sources into one changes automatic self-join aliases, which is not what this pair is about
                yield {"kind": "stmt", "name": chunk["name"], "slot": slot, "pair": pair}
                # the same statement built through every dialect's query class (their builders override parts of
                # replace_table / get_sql)
                if pair in ("plain->plain", "aliased->plain", "plain->oth") and not chunk["name"].startswith("pg_"):
                    for qn in ("mysql", "postgresql", "sqlite", "mssql", "oracle") + (
                            ("mix:generic+mysql", "mix:mysql+generic", "mix:postgresql+sqlite", "mix:sqlite+postgresql") if pair == "plain->plain" else ()):
                        yield {"kind": "stmt", "name": chunk["name"], "slot": slot, "pair": pair, "q": qn}


def renders(o):
    out = []
    for d, ctx in fp.CTX.items():
        out.append((d, fp.render(o, ctx.copy(with_namespace=True))))
        out.append((d + ":a", fp.render(o, ctx.copy(with_namespace=True, with_alias=True))))
        if d in ("generic", "postgresql"):
            ps, pv = fp.render_param(o, ctx.copy(with_namespace=True))
            out.append((d + ":p", ps, fp.vrepr(pv)))
    if hasattr(o, "get_parameterized_sql") and callable(getattr(type(o), "get_sql", None)):
        try:
            gp = o.get_parameterized_sql()
            out.append(("gps", gp[0], fp.vrepr(gp[1])))
        except Exception as e:
            out.append(("gps", "!" + type(e).__name__))
        try:
            out.append(("str", str(o)))
        except Exception as e:
            out.append(("str", "!" + type(e).__name__))
    return out


class _MixQ:
    """statement parts built through two dialect classes in turn (the statement as a whole, its subqueries and operands come from
    different classes)"""

    def __init__(self, a, b):
        self._cls, self._n = (a, b), 0

    def __getattr__(self, name):
        c = self._cls[self._n % 2]
        self._n += 1
        return getattr(c, name)


def run_case(case):
    _OTHER["mk"] = NEAR_TWINS.get(case["pair"])
    try:
        return _run_case(case)
    finally:
        _OTHER["mk"] = None


def _run_case(case):
    res = Result()
    mk_old, mk_new = PAIRS[case["pair"]]
    Qd = None
    if case.get("q"):
        if case["q"].startswith("mix:"):
            a_, b_ = case["q"][4:].split("+")
            Qd = lambda: _MixQ(fp.QCLS[a_], fp.QCLS[b_])  # noqa: E731  (a fresh alternation for every construction)
        else:
            Qd = fp.QCLS[case["q"]]
    if case["kind"] == "term":
        n, b = ZOO_BY[case["name"]]

        def build(which):
            tabs = [other() for _ in range(max(n, 1))]
            if case["slot"] >= 0:
                tabs[case["slot"]] = which()
            flds = [fld(tabs[i], "c%d" % i) for i in range(max(n, 1))]
            if case.get("inner") and case["slot"] >= 0:
                flds[case["slot"]] = INNER[case["inner"]](flds[case["slot"]])
            t = b(flds)
            if case["outer"]:
                t = OUTER[case["outer"]](t)
            return t

        try:
            site = type(build(mk_old)).__name__ if not case["outer"] else type(b([fld(other(), "c%d" % i) for i in range(max(n, 1))])).__name__
        except (AttributeError, TypeError) as e:
            if not case.get("inner"):
                raise
            res.extra["disabled"] = 1
            res.extra.setdefault("disabled_kinds", set()).add("inner:%s:%s" % (case["name"], type(e).__name__))
            return res
        sigsite = "%s[%d]" % (case["name"].split(".")[0] if not case["name"].startswith(("functions.", "analytics.")) else site, case["slot"])
    else:
        fn = STMTS[case["name"]]

        def build(which):
            if Qd is not None:
                return fn(lambda s: which() if s == case["slot"] else other(), Qd() if case["q"].startswith("mix:") else Qd)
            return fn(lambda s: which() if s == case["slot"] else other())

        sigsite = "%s.%s" % (case["name"], case["slot"])
    try:
        recv = build(mk_old)
        want = build(mk_new)
    except Exception as e:
        if case.get("inner") and type(e).__name__ in ("AttributeError", "TypeError"):
            res.extra["disabled"] = 1
            res.extra.setdefault("disabled_kinds", set()).add("inner:%s:%s" % (case["name"], type(e).__name__))
            return res
        if (sigsite, type(e).__name__) in (("update_join.from", "JoinException"),):
            # the base table appears in update() and in the ON criterion: with "old" in only one of them the join is invalid
            res.extra["disabled"] = 1
            res.extra.setdefault("disabled_kinds", set()).add("%s:%s" % (sigsite, type(e).__name__))
            return res
        res.nontrivial = 1
        res.violate("C16|%s|build-raises|%s" % (sigsite, type(e).__name__), "a valid construction of the menu was rejected while it was built",
                    case=case, error=str(e)[:200])
        return res
    if not hasattr(recv, "replace_table") or not hasattr(recv, "get_sql"):
        res.extra["disabled"] = 1  # e.g. QueryBuilder == 1 is a bool: the composition is not a term
        return res
    res.nontrivial = 1
    before = obs(recv, dialects=["generic", "mysql"])
    old, new = mk_old(), mk_new()
    res.transitions += 1
    try:
        got = recv.replace_table(old, new)
    except Exception as e:
        res.violate("C16|%s|raises|%s" % (sigsite, type(e).__name__), "replace_table raised", case=case, error=str(e)[:200])
        return res
    r_got, r_want = renders(got), renders(want)
    res.outcomes.append(h64(repr(r_got)))
    res.states.append(h64(repr((case["name"], case.get("slot"), case["pair"]))))
    if case["kind"] == "stmt" and "none" in case["pair"] and not (case["pair"].startswith("none->") and case["name"] not in NONE_STRUCTURAL):
        # other table-less items of the statement ('*', USING columns) are references to None as well, so "the same
        # construction with new in that slot" is not what replace_table(None, new) must give; what it must keep is the statement
        # itself: same kind, same clauses
        import re as _re

        r_recv = renders(recv)
        for x1, x2 in zip(r_recv, r_got):
            a1, a2 = x1[1], x2[1]
            k1 = _re.findall(r"\b(SELECT|INSERT|UPDATE|DELETE|WITH|FROM|WHERE|JOIN|SET|VALUES|GROUP|HAVING|ORDER|RETURNING|ON)\b", a1)
            k2 = _re.findall(r"\b(SELECT|INSERT|UPDATE|DELETE|WITH|FROM|WHERE|JOIN|SET|VALUES|GROUP|HAVING|ORDER|RETURNING|ON)\b", a2)
            if k1 != k2:
                res.violate("C16|%s|none-changes-statement" % case["name"], "replace_table with None changed the kind / clause structure of the statement",
                            case=case, receiver=a1, got=a2)
                break
    elif r_got != r_want:
        # still references old?
        d0 = next((a, b2) for a, b2 in zip(r_got, r_want) if a != b2)
        res.violate("C16|%s|not-replaced" % sigsite if not case["pair"].startswith("none->") else "C16|%s|none-not-replaced" % sigsite,
                    "replace_table(old, new) does not give the rendering of the same construction built with new",
                    case=case, got=d0[0], want=d0[1])
    after = obs(recv, dialects=["generic", "mysql"])
    if after != before:
        res.violate("C16|%s|receiver-changed" % sigsite, "replace_table changed the receiver", case=case, diff=fp.obs_diff(before, after))
    return res


def describe():
    return {
        "rule": "terms: every zoo entry (one per Term subclass found by introspection + variants) x each operand slot x 6 "
                "table pairs (thorough: x 10 outer compositions); statements: 12 statement shapes x every clause slot x 6 "
                "pairs; rendering forced to qualify (with_namespace=True) in six contexts, with and without alias printing",
        "bound": {"quick": "depth 1 terms + statements", "thorough": "+ depth-2 compositions"},
        "assumptions": ["T_old and T_other have different names, so a surviving qualifier of T_old is visible",
                        "a slot is an operand position that receives a Field; zoo slot lists come from mc/zoo.py"],
    }
