"""C17 — equality and hashing of tables, schemas and queries are coherent.

Bounded-exhaustive: the cross product of table variants (name x schema form x alias x temporal clause x query
class), all ordered pairs and all triples; schemas/databases; aliased queries; query builders (alias x FROM);
expressions over fields of 1..3 tables with overlapping column names in every operand order.  Laws: reflexive,
symmetric, transitive, '!=' is the negation, equal => equal hashes, unchanged by rendering, set/dict membership
agrees with linear search; fields_()/tables_ return exactly the references the expression was built from.
"""
from __future__ import annotations

import itertools

from mc.common import Result, h64
from mc import fp

from pypika_tortoise import AliasedQuery, Database, Field, Query, Schema, Table
from pypika_tortoise import functions as FN
from pypika_tortoise.dialects import MySQLQuery, PostgreSQLQuery
from pypika_tortoise.terms import Criterion, Case, SystemTimeValue, Tuple

PROPERTY = "C17"

NAMES = ["t", "u"]
SCHEMAS = ["none", "str", "list", "schema", "nested", "other", "db_only", "deep3", "deep3b", "dotted"]
ALIASES = [None, "x", "t"]  # ("t": the alias spelled like a table name - equal written names, different tables)
TEMPORAL = ["none", "for", "for2", "portion"]
QCLS = [None, "pg", "my"]


def mk_schema(k):
    if k == "none":
        return None
    if k == "str":
        return "s"
    if k == "list":
        return ["d", "s"]
    if k == "schema":
        return Schema("s")
    if k == "nested":
        return Schema("s", parent=Database("d"))
    if k == "other":
        return "s2"
    if k == "db_only":  # a proper prefix of the two-level paths
        return "d"
    if k == "deep3":  # ... which are proper prefixes of this one
        return ["d", "s", "x"]
    if k == "dotted":  # one schema whose name is the dotted spelling of the two-level path
        return "d.s"
    if k == "deep3b":  # differs from deep3 in the outermost qualifier only
        return ["e", "s", "x"]


def mk_table(desc):
    name, sk, alias, temp, qc = desc
    t = Table(name, schema=mk_schema(sk), alias=alias, query_cls={"pg": PostgreSQLQuery, "my": MySQLQuery}.get(qc))
    if temp == "for":
        t = t.for_(SystemTimeValue().as_of("2020-01-01"))
    elif temp == "for2":
        t = t.for_(SystemTimeValue().as_of("2021-01-01"))
    elif temp == "portion":
        t = t.for_portion(SystemTimeValue().from_to("2020-01-01", "2020-02-01"))
    return t


def table_descs():
    # (the MySQL query class - the one with another identifier quote - only for the non-temporal variants)
    return [list(d) for d in itertools.product(NAMES, SCHEMAS, ALIASES, TEMPORAL, QCLS) if not (d[4] == "my" and d[3] != "none")]


def mk_other(desc):
    k = desc[0]
    if k == "schema":
        parts = desc[1]
        s = None
        for i, p in enumerate(parts):
            s = (Database(p) if (i == 0 and desc[2]) else Schema(p, parent=s)) if s is not None or (i == 0 and desc[2]) else Schema(p)
        return s
    if k == "aq":
        q = None if desc[2] is None else Query.from_(Table(desc[2])).select("a")
        a = AliasedQuery(desc[1], q)
        return a.as_(desc[3]) if len(desc) > 3 and desc[3] else a
    if k == "table":
        return Table(desc[1], alias=desc[2])
    if k == "so":
        q = Query.from_(Table(desc[2])).select("a").union(Query.from_(Table("w")).select("a"))
        return q.as_(desc[1]) if desc[1] else q
    if k == "qb":
        alias, froms, sel = desc[1], desc[2], desc[3]
        q = Query.from_(Table(froms[0]))
        for f in froms[1:]:
            q = q.from_(Table(f))
        q = q.select(sel)
        if alias:
            q = q.as_(alias)
        return q
    raise ValueError(desc)


def other_descs():
    out = []
    for parts in (["s"], ["s2"], ["d", "s"], ["d", "s2"], ["e", "s"], ["d"], ["d", "s", "x"], ["s", "x"], ["e", "s", "x"], ["f", "d", "s", "x"], ["g", "d", "s", "x"]):
        for db in (False, True):
            out.append(["schema", parts, db])
    for name in ("c1", "c2"):
        for q in (None, "t", "u"):
            out.append(["aq", name, q])
        for al in ("x", "c1", "a1"):  # renamed after construction (name and alias differ / coincide with other names)
            out.append(["aq", name, None, al])
    for alias in (None, "a1", "c1"):
        for frm in ("t", "u"):
            out.append(["so", alias, frm])
    # tables among the other selectables: comparisons across kinds (a builder is not a table, whatever their aliases)
    for nm, al in (("t", None), ("t", "a1"), ("c1", None), ("a1", None)):
        out.append(["table", nm, al])
    for alias in (None, "a1", "a2"):
        for froms in (["t"], ["u"], ["t", "u"]):
            for sel in ("a", "b"):
                out.append(["qb", alias, froms, sel])
    return out


def safe_eq(a, b):
    r = a == b
    return bool(r) if isinstance(r, bool) else r


def safe_hash(o):
    try:
        return hash(o)
    except TypeError:
        return None


def chunks(tier, seed):
    out = []
    descs = table_descs()
    for i in range(len(descs)):
        out.append({"kind": "tables", "i": i, "triples": tier == "thorough"})
    out.append({"kind": "others"})
    out.append({"kind": "exprs", "tier": tier})
    return out


def expand(chunk):
    yield chunk


def kind_name(o):
    return type(o).__name__


def check_pair(res, a, b, da, db_, label):
    eq_ab, eq_ba = a == b, b == a
    res.transitions += 2
    if not isinstance(eq_ab, bool):
        res.violate("C17|%s|eq-not-bool" % label, "== does not return a bool", a=da, b=db_)
        return
    if eq_ab != eq_ba:
        res.violate("C17|%s|asymmetric" % label, "a == b differs from b == a", a=da, b=db_)
    ne = a != b
    if not isinstance(ne, bool):
        res.violate("C17|%s|ne-not-bool" % label, "== returns a bool but != does not (it is truthy whatever the operands)", a=da, b=db_)
    elif ne == eq_ab:
        res.violate("C17|%s|ne-not-negation" % label, "a != b is not the negation of a == b", a=da, b=db_)
    ha, hb = safe_hash(a), safe_hash(b)
    if eq_ab and ha is not None and hb is not None and ha != hb:
        res.violate("C17|%s|equal-but-different-hash" % label, "a == b but hash(a) != hash(b)", a=da, b=db_,
                    str_a=str(a) if hasattr(a, "get_sql") else repr(a), str_b=str(b) if hasattr(b, "get_sql") else repr(b))
    if ha is not None and hb is not None:
        in_set = a in {b}
        in_dict = a in {b: 1}
        in_list = a in [b]
        if in_set != eq_ab or in_dict != eq_ab:
            if not (eq_ab and ha != hb):  # already reported above as the root cause
                res.violate("C17|%s|membership" % label, "set/dict membership disagrees with ==", a=da, b=db_, eq=eq_ab, in_set=in_set)
        if in_list != eq_ab:
            res.violate("C17|%s|list-membership" % label, "list membership disagrees with ==", a=da, b=db_)


def run_tables(case, res):
    descs = table_descs()
    da = descs[case["i"]]
    a = mk_table(da)
    res.nontrivial = 1
    res.states.append(h64(repr(da)))
    if not (a == a):
        res.violate("C17|Table|irreflexive", "a == a is false", a=da)
    h0 = safe_hash(a)
    tabs = [(d, mk_table(d)) for d in descs]
    for db_, b in tabs:
        check_pair(res, a, b, da, db_, "Table")
    # equality/hash unchanged by rendering
    for d, ctx in fp.CTX.items():
        a.get_sql(ctx)
        a.get_sql(ctx.copy(with_alias=True, with_namespace=True))
    str(a)
    if safe_hash(a) != h0:
        res.violate("C17|Table|hash-changed-by-render", "hash changed after rendering", a=da)
    if da[2] is None:
        # a table derived by a builder call from an already hashed / rendered receiver equals (and hashes like) the
        # table constructed directly
        base = mk_table(da)
        hash(base), str(base), base in {base}
        derived = base.as_("x")
        direct = mk_table([da[0], da[1], "x", da[3], da[4]])
        res.transitions += 2
        if not (derived == direct) or not (direct == derived):
            res.violate("C17|Table|derived-not-equal-direct", "t.as_('x') is not equal to Table(.., alias='x')", a=da)
        elif safe_hash(derived) != safe_hash(direct) or (derived in {direct}) is not True:
            res.violate("C17|Table|derived-hash-differs", "t.as_('x') == Table(.., alias='x') but hash / set membership differ "
                        "(the receiver had been hashed before the builder call)", a=da)
        if da[3] == "none":
            b2 = mk_table(da)
            hash(b2)
            dt = b2.for_(SystemTimeValue().as_of("2020-01-01"))
            direct_t = mk_table([da[0], da[1], da[2], "for", da[4]])
            if not (dt == direct_t) or safe_hash(dt) != safe_hash(direct_t):
                res.violate("C17|Table|derived-hash-differs", "t.for_(..) differs from the directly built temporal table in ==/hash", a=da)
    twin = mk_table(da)
    if not (a == twin) or safe_hash(twin) != h0:
        res.violate("C17|Table|fresh-twin-differs", "an identically constructed table is not equal / hashes differently", a=da)
    if case["triples"]:
        same = [(d, t) for d, t in tabs if d[0] == da[0]]
        eqs = [(d, t) for d, t in same if a == t]
        for db_, b in eqs:
            for dc, c in same:
                res.transitions += 1
                if (b == c) and not (a == c):
                    res.violate("C17|Table|intransitive", "a == b and b == c but a != c", a=da, b=db_, c=dc)
    # membership in sets of size <= 3 vs linear search (the library's join/returning/star checks rely on it)
    same = [(d, t) for d, t in tabs if d[0] == da[0] and d[4] == da[4]][:40]
    for (d1, t1), (d2, t2) in itertools.combinations(same, 2):
        S = [t1, t2]
        lin = any(a == s for s in S)
        try:
            ins = a in set(S)
        except TypeError:
            continue
        res.transitions += 1
        if lin != ins:
            # root cause is an equal-but-different-hash pair, reported above; keep one membership witness per kind
            root = any((a == s) and safe_hash(a) != safe_hash(s) for s in S)
            if not root:
                res.violate("C17|Table|membership", "set membership disagrees with linear search", a=da, S=[d1, d2])
    # the library's own checks that rely on membership (join validation, RETURNING validation, star selection) must
    # treat b as "the statement's table a" exactly when a == b
    from pypika_tortoise.dialects import MySQLQuery, PostgreSQLQuery as PGQ
    from pypika_tortoise import Query as GQ

    jj = Table("jj_other")
    for db_, b in tabs:
        if db_[0] != da[0] and db_[2] != da[0] and da[2] != db_[0]:
            continue  # differently named tables (also by alias): covered by one representative below
        same = bool(a == b)
        res.transitions += 5
        # the same check on the paths with further row sources (UPDATE .. FROM a / UPDATE .. JOIN a): b is accepted iff a == b
        for label, mkq in (("returning_from", lambda: PGQ.update(jj).from_(a).set("c", 1)),
                           ("returning_join", lambda: PGQ.update(jj).join(a).on(jj.id == Field("id", table=a)).set("c", 1))):
            try:
                q0 = mkq()
            except Exception:
                continue
            try:
                q0.returning(Field("x", table=b))
                got = True
            except Exception:
                got = False
            if got != same:
                res.violate("C17|Table|library-check-disagrees-with-eq|%s" % label,
                            "the %s check treats b as %s source of the statement although a == b is %s" % (label, "a" if got else "no", same),
                            a=da, b=db_)
        try:
            PGQ.update(a).set("c", 1).returning(Field("x", table=b))
            ret_ok = True
        except Exception:
            ret_ok = False
        try:
            GQ.from_(a).join(jj).on(Field("x", table=b) == jj.y)
            join_ok = True
        except Exception:
            join_ok = False
        try:
            sel = GQ.from_(a).select(a.star).select(Field("zq_x", table=b))
            star_drops = "zq_x" not in sel.get_sql(fp.CTX["generic"])
        except Exception:
            star_drops = None
        for label, got in (("returning", ret_ok), ("join", join_ok), ("star", star_drops)):
            if got is not None and got != same:
                res.violate("C17|Table|library-check-disagrees-with-eq|%s" % label,
                            "the %s check treats b as %s table of the statement although a == b is %s" % (label, "the" if got else "another", same),
                            a=da, b=db_)
    res.outcomes.append(h64(repr([bool(a == t) for _, t in tabs])))


def run_others(case, res):
    descs = other_descs()
    objs = [(d, mk_other(d)) for d in descs]
    res.nontrivial = 1
    for da, a in objs:
        res.states.append(h64(repr(da)))
        if not (a == a):
            res.violate("C17|%s|irreflexive" % kind_name(a), "a == a is false", a=da)
        for db_, b in objs:
            check_pair(res, a, b, da, db_, kind_name(a))
        h0 = safe_hash(a)
        if hasattr(a, "get_sql"):
            for d, ctx in fp.CTX.items():
                try:
                    a.get_sql(ctx)
                except Exception:
                    pass
        if safe_hash(a) != h0:
            res.violate("C17|%s|hash-changed-by-render" % kind_name(a), "hash changed after rendering", a=da)
        # ... and after the object was used as a row source of other statements whose other sources go by the same name
        from pypika_tortoise.queries import QueryBuilder as _QB, _SetOperation as _SO
        if isinstance(a, (_QB, _SO, Table, AliasedQuery)) and getattr(a, "alias", None):
            al = a.alias
            try:
                for other_src in (Table("zz_same", alias=al), Query.from_(Table("zz_same")).select("v").as_(al)):
                    Query.from_(other_src).join(a).cross().select("*")
                    Query.from_(other_src).from_(a).select("*")
            except Exception:
                pass
            if safe_hash(a) != h0 or a.alias != al or (a in {a}) is not True:
                res.violate("C17|%s|hash-changed-by-use" % kind_name(a), "hash / alias of an aliased row source changed after it was joined into another "
                            "statement (set and dict entries made before are lost)", a=da, alias_before=al, alias_after=a.alias)
        for db_, b in objs:
            for dc, c in objs:
                if type(a) is type(b) is type(c) and (a == b) and (b == c) and not (a == c):
                    res.violate("C17|%s|intransitive" % kind_name(a), "a == b and b == c but a != c", a=da, b=db_, c=dc)
    res.outcomes.append(h64(repr([[bool(a == b) for _, b in objs] for _, a in objs])))


# ---- fields_() / tables_ ----------------------------------------------------------------------------------------

# (name, alias, schema, kind)
TKEYS = {"A": ("a", None, None, "T"), "B": ("b", None, None, "T"), "C": ("c", None, None, "T"), "A2": ("a", "a2", None, "T"),
         "Acopy": ("a", None, None, "T"), "A_s1": ("a", None, "s1", "T"), "A_s2": ("a", None, "s2", "T"),
         "X_as_a": ("x", "a", None, "T"), "AQ_a": ("a", "a", None, "AQ"),
         # schema names that only differ in how the path is spelled: one dotted name vs a nested path
         "A_dot": ("a", None, "p.q", "T"), "A_path": ("a", None, ("p", "q"), "T"),
         # no table at all / an un-aliased subquery / an aliased subquery / an aliased set operation as the field's source
         "NONE": (None, None, None, "N"), "SQ": ("<sq>", None, None, "Q"), "SQ_a": ("<sq>", "a", None, "Q"), "SO_b": ("<so>", "b", None, "S")}


def mk_t(key):
    name, alias, schema, kind = TKEYS[key]
    if kind == "AQ":
        return AliasedQuery(name)
    if kind == "N":
        return None
    if kind == "Q":
        q = Query.from_(Table("inner1")).select("x", "y")
        return q.as_(alias) if alias else q
    if kind == "S":
        return Query.from_(Table("inner1")).select("x").union(Query.from_(Table("inner2")).select("x")).as_(alias)
    return Table(name, alias=alias, schema=schema)


def tkey(key):
    return TKEYS[key]


def ident(t):
    if t is None:
        return (None, None, None, "N")
    if isinstance(t, AliasedQuery):
        return (t.name, t.alias, None, "AQ")
    if type(t).__name__.endswith("QueryBuilder"):
        return ("<sq>", t.alias, None, "Q")
    if type(t).__name__ == "_SetOperation":
        return ("<so>", t.alias, None, "S")
    sch, node = [], getattr(t, "_schema", None)
    while node is not None:
        sch.insert(0, node._name)
        node = getattr(node, "_parent", None)
    sch = None if not sch else (sch[0] if len(sch) == 1 else tuple(sch))
    return (t._table_name, t.alias, sch, "T")


def expr_shapes():
    """(name, arity, builder(fields)->term)"""
    return [
        ("eq", 2, lambda f: f[0] == f[1]),
        ("add", 2, lambda f: f[0] + f[1]),
        ("and", 3, lambda f: (f[0] == f[1]) & (f[2] > 1)),
        ("or_nested", 3, lambda f: (f[0] == 1) | ((f[1] == 2) & (f[2] == 3))),
        ("func", 2, lambda f: FN.Coalesce(f[0], f[1])),
        ("case", 3, lambda f: Case().when(f[0] == 1, f[1]).else_(f[2])),
        ("in", 2, lambda f: f[0].isin([f[1], 5])),
        ("between", 3, lambda f: f[0].between(f[1], f[2])),
        ("tuple", 2, lambda f: Tuple(f[0], f[1]) == Tuple(1, 2)),
        ("neg", 2, lambda f: -f[0] + f[1]),
        ("not", 2, lambda f: ~(f[0] == f[1])),
        # connective chains of every grouping (left-deep as &= / chained where() build them, right-deep, balanced)
        ("and3_left", 3, lambda f: ((f[0] == 1) & (f[1] == 2)) & (f[2] == 3)),
        ("and3_right", 3, lambda f: (f[0] == 1) & ((f[1] == 2) & (f[2] == 3))),
        ("or4_left", 4, lambda f: (((f[0] == 1) | (f[1] == 2)) | (f[2] == 3)) | (f[3] == 4)),
        ("and4_right", 4, lambda f: (f[0] == 1) & ((f[1] == 2) & ((f[2] == 3) & (f[3] == 4)))),
        ("mixed4_balanced", 4, lambda f: ((f[0] == 1) & (f[1] == 2)) | ((f[2] == 3) & (f[3] == 4))),
        ("all4", 4, lambda f: Criterion.all([f[0] == 1, f[1] == 2, f[2] == 3, f[3] == 4])),
        ("any4", 4, lambda f: Criterion.any([f[0] == 1, f[1] == 2, f[2] == 3, f[3] == 4])),
        ("xor3_left", 3, lambda f: ((f[0] == 1) ^ (f[1] == 2)) ^ (f[2] == 3)),
        ("arith4_left", 4, lambda f: ((f[0] + f[1]) * f[2]) - f[3]),
        ("arith4_right", 4, lambda f: f[0] + (f[1] * (f[2] - f[3]))),
        ("cmp_chain", 4, lambda f: (f[0] + f[1]) == (f[2] - f[3])),
    ]


def run_exprs(case, res):
    res.nontrivial = 1
    tkeys = list(TKEYS)
    cols = ["x", "y"]
    for name, n, build in expr_shapes():
        combos = itertools.product(tkeys, repeat=n) if n < 4 else itertools.permutations(["A", "B", "C", "A2", "A_s1"], 4)
        for combo in combos:
            for colc in (itertools.product(cols, repeat=n) if n < 4 else [("x",) * 4]):
                if n == 3 and (len(set(colc)) > 1 or (case["tier"] == "quick" and len(set(combo)) > 2 and combo[0] not in ("A", "A_s1"))):
                    continue
                fields = [Field(colc[i], table=mk_t(combo[i])) for i in range(n)]
                term = build(fields)
                res.transitions += 1
                exp_f = {(tkey(combo[i]), colc[i]) for i in range(n)}
                exp_t = {tkey(combo[i]) for i in range(n) if TKEYS[combo[i]][3] in ("T", "AQ")}  # (tables_ is about tables)
                try:
                    got_f = {(ident(f.table), f.name) for f in term.fields_()}
                    got_t = {ident(t) for t in term.tables_ if not isinstance(t, AliasedQuery)} | {
                        ident(f.table) for f in term.fields_() if isinstance(f.table, AliasedQuery)}
                except Exception as e:
                    res.violate("C17|fields_|raises|%s" % name, "fields_()/tables_ raised %s" % type(e).__name__, shape=name, tables=combo, cols=colc)
                    continue
                res.outcomes.append(h64(repr((sorted(map(str, got_f)), sorted(map(str, got_t))))))
                if got_f != exp_f:
                    res.violate("C17|fields_|missing-reference", "fields_() does not return every distinct (table, column) reference",
                                shape=name, tables=list(combo), cols=list(colc), got=sorted(map(str, got_f)), expected=sorted(map(str, exp_f)))
                if got_t != exp_t:
                    res.violate("C17|tables_|missing-table", "tables_ does not return every distinct table", shape=name,
                                tables=list(combo), cols=list(colc), got=sorted(map(str, got_t)), expected=sorted(map(str, exp_t)))
    # every Term subclass (zoo): fields of pairwise different tables in its operand slots must all be collected
    from mc import zoo

    Z, _ = zoo.term_zoo()
    for zname, n, build in Z:
        if n == 0 or zname in ("QueryBuilder", "_SetOperation", "ContainsCriterion.sub", "Star"):
            continue  # subqueries have their own fields by design; Star is a Field named '*'
        tabs = [Table("z%d" % i) for i in range(n)]
        for same_col, inner in ((True, None), (False, None), (False, "arith"), (False, "neg"), (False, "func"), (True, "func"), (True, "arith")):
            fields = [Field("x" if same_col else "c%d" % i, table=tabs[i]) for i in range(n)]
            if inner:
                # every slot holds an expression over its column instead of the bare column (kinds whose constructor needs a
                # bare column are skipped for this dimension)
                wrap = {"arith": lambda f_: f_ + 1, "neg": lambda f_: -f_, "func": lambda f_: FN.Lower(f_)}[inner]
                if zname in ("Values", "AtTimezone") or zname.endswith(".star"):
                    continue
                try:
                    term = build([wrap(f_) for f_ in fields])
                except (AttributeError, TypeError):
                    continue
            else:
                term = build(fields)
            res.transitions += 1
            exp_f = {(("z%d" % i, None), "x" if same_col else "c%d" % i) for i in range(n)}
            if zname.endswith(".star"):
                exp_f = {(tab, "*") for tab, _ in exp_f}  # the operand is the star of the slot's table: a Field named '*'
            try:
                got_f = {((getattr(f.table, "_table_name", None), getattr(f.table, "alias", None)), f.name) for f in term.fields_()}
                got_t = {(t._table_name, t.alias) for t in term.tables_}
            except Exception as e:
                res.violate("C17|fields_|raises|%s" % zname, "fields_()/tables_ raised %s" % type(e).__name__, term=zname)
                continue
            cls = zname.split(".")[0] if not zname.startswith(("functions.", "analytics.")) else type(term).__mro__[1].__name__
            miss = exp_f - got_f
            if miss:
                res.violate("C17|fields_|slot-not-collected|%s" % (cls if not same_col else "same-name"),
                            "fields_() misses operands of %s" % zname, term=zname, missing=sorted(map(str, miss)), same_col=same_col)
            if {k for k, _ in exp_f} - got_t:
                res.violate("C17|tables_|slot-not-collected|%s" % (cls if not same_col else "same-name"),
                            "tables_ misses operands of %s" % zname, term=zname, got=sorted(map(str, got_t)))
    res.states.append(h64("exprs"))


def run_case(case):
    res = Result()
    if case["kind"] == "tables":
        run_tables(case, res)
    elif case["kind"] == "others":
        run_others(case, res)
    else:
        run_exprs(case, res)
    return res


def describe():
    return {
        "rule": "tables = name{t,u} x schema{None,'s',['d','s'],Schema,nested,other} x alias{None,x} x temporal{none,for,for',"
                "portion} x query class{None,PG} = 192 objects: all ordered pairs (thorough: all triples); 10 schemas/"
                "databases, 6 aliased queries, 18 query builders: all pairs and triples; expressions: 11 shapes x all "
                "assignments of 5 table variants x 2 column names to their operands (every operand order)",
        "bound": {"quick": "pairs; 3-operand expressions partly", "thorough": "pairs + triples; all expression assignments"},
        "assumptions": ["hashability of Schema is not demanded (it defines __eq__ only and the library never hashes schemas)",
                        "reference identity of a table = (name, alias)"],
    }
