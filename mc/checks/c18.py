"""C18 — interval literals encode exactly the requested duration.

Bounded-exhaustive enumeration of all 7-tuples over a digit-pattern domain (+ negated leading component,
quarters, weeks) x all six dialect contexts; the rendered literal is parsed back by an independent
reference reader (unit designator -> field layout) and compared with the constructor arguments.
"""
from __future__ import annotations

import copy
import itertools
import pickle
import re

from mc.common import Result, h64
from mc import fp

from pypika_tortoise import AliasedQuery, CustomFunction, Field, Table
from pypika_tortoise import analytics as AN
from pypika_tortoise import functions as FN
from pypika_tortoise.terms import Case, Function, Interval

PROPERTY = "C18"

DOM = {"quick": [0, 1, 10, 12, 100], "thorough": [0, 1, 5, 10, 20, 100, 101, 12]}
LABELS = ["YEAR", "MONTH", "DAY", "HOUR", "MINUTE", "SECOND", "MICROSECOND"]
SEP_AFTER = ["-", "-", " ", ":", ":", "."]  # separator between field i and i+1 in 'Y-M-D h:m:s.f'

# quoting form per target dialect (reference table, written from the vendors' syntax, not from the library):
#   PostgreSQL: INTERVAL '<expr> <unit>'      MySQL / Oracle: INTERVAL '<expr>' <unit>     others: INTERVAL '<expr> <unit>'
FORM = {"postgresql": "in", "mysql": "out", "oracle": "out", "generic": "in", "sqlite": "in", "mssql": "in"}

LIT = {
    "in": re.compile(r"^INTERVAL '(?P<expr>[^']*) (?P<unit>[A-Z_]+)'$"),
    "out": re.compile(r"^INTERVAL '(?P<expr>[^']*)' (?P<unit>[A-Z_]+)$"),
}


def ref_read(text, form):
    """-> (sign, unit, [field ints]) or None if the literal does not have the dialect's quoting form."""
    m = LIT[form].match(text)
    if not m:
        return None
    expr, unit = m.group("expr"), m.group("unit")
    sign = 1
    if expr.startswith("-"):
        sign, expr = -1, expr[1:]
    if unit in ("QUARTER", "WEEK"):
        if not re.fullmatch(r"\d+", expr):
            return None
        return sign, unit, [int(expr)]
    parts = unit.split("_")
    if any(p not in LABELS for p in parts) or len(parts) > 2:
        return None
    lo = LABELS.index(parts[0])
    hi = LABELS.index(parts[-1])
    if hi < lo:
        return None
    rx = r"(\d+)"
    for i in range(lo, hi):
        rx += re.escape(SEP_AFTER[i]) + r"(\d+)"
    mm = re.fullmatch(rx, expr)
    if not mm:
        return None
    return sign, unit, [int(g) for g in mm.groups()]


def expected(comp):
    """reference model: (sign, unit, fields) for a 7-tuple whose leading non-zero component may be negative."""
    nz = [i for i, v in enumerate(comp) if v]
    if not nz:
        return 1, "DAY", [0]
    lo, hi = nz[0], nz[-1]
    sign = -1 if comp[lo] < 0 else 1
    unit = LABELS[lo] if lo == hi else LABELS[lo] + "_" + LABELS[hi]
    return sign, unit, [abs(v) for v in comp[lo:hi + 1]]


def all_contexts():
    """the six dialect classes' contexts + one context per member of the Dialects enum (every template and the default)"""
    from pypika_tortoise.context import DEFAULT_SQL_CONTEXT
    from pypika_tortoise.enums import Dialects

    C = {d: (ctx, FORM[d]) for d, ctx in fp.CTX.items()}
    for m in Dialects:
        C["enum:" + m.name] = (DEFAULT_SQL_CONTEXT.copy(dialect=m), "out" if m.name in ("ORACLE", "MYSQL") else "in")
    return C


_CTXS = None

# where an Interval can sit inside a larger expression / statement: the literal must keep the dialect's form there
EMBED = {
    "arith": lambda iv: Field("d") + iv,
    "arith_r": lambda iv: (Field("d") - iv) * 1,
    "func": lambda iv: Function("DATE_ADD", Field("d"), iv),
    "func_nested": lambda iv: FN.Coalesce(Function("DATE_ADD", Field("d"), iv), Field("e")),
    "custom_fn": lambda iv: CustomFunction("ADDI", ["a", "b"])(Field("d"), iv),
    "case_then": lambda iv: Case().when(Field("d") == 1, Field("e") + iv).else_(Field("e")),
    "cmp": lambda iv: Field("d") > (Field("e") - iv),
    "between": lambda iv: Field("d").between(Field("e") - iv, Field("e") + iv),
    "isin": lambda iv: Field("d").isin([Field("e") + iv, Field("e")]),
    "agg": lambda iv: FN.Max(Field("d") + iv),
    "not": lambda iv: (Field("d") > (Field("e") - iv)).negate(),
}
def _other(Q):
    return fp.QCLS["generic"] if Q is fp.QCLS["mysql"] else fp.QCLS["mysql"]


STMT_EMBED = {
    "select": lambda Q, iv: Q.from_(Table("t")).select(Table("t").d + iv),
    "select_fn": lambda Q, iv: Q.from_(Table("t")).select(Function("DATE_ADD", Table("t").d, iv)),
    "where": lambda Q, iv: Q.from_(Table("t")).select("a").where(Table("t").d > Function("DATE_SUB", Table("t").e, iv)),
    "subquery": lambda Q, iv: Q.from_(Q.from_(Table("t")).select((Table("t").d + iv).as_("x"))).select("x"),
    "set": lambda Q, iv: Q.update(Table("t")).set("d", Table("t").d + iv),
    "insert": lambda Q, iv: Q.into(Table("t")).insert(1, Function("NOW") + iv),
    # every further clause that can hold an expression
    "conflict_update": lambda Q, iv: Q.into(Table("t")).insert(1, 2).on_conflict("id").do_update("d", Table("t").d + iv),
    "conflict_update_where": lambda Q, iv: Q.into(Table("t")).insert(1, 2).on_conflict("id").do_update("d", 5).where(Table("t").d > Function("NOW") - iv),
    "insert_select": lambda Q, iv: Q.into(Table("t")).columns("d").from_(Table("u")).select(Table("u").d + iv),
    "having": lambda Q, iv: Q.from_(Table("t")).select("a").groupby("a").having(FN.Max(Table("t").d) > Function("NOW") - iv),
    "groupby": lambda Q, iv: Q.from_(Table("t")).select("a").groupby(Table("t").d + iv),
    "orderby": lambda Q, iv: Q.from_(Table("t")).select("a").orderby(Table("t").d + iv),
    "join_on": lambda Q, iv: Q.from_(Table("t")).join(Table("u")).on(Table("t").d == Table("u").d + iv).select("a"),
    "join_sub": lambda Q, iv: (lambda s: Q.from_(Table("t")).join(s).on(Table("t").d == s.x).select("a"))(
        Q.from_(Table("u")).select((Table("u").d + iv).as_("x")).as_("sj")),
    "in_sub": lambda Q, iv: Q.from_(Table("t")).select("a").where(Table("t").d.isin(Q.from_(Table("u")).select(Table("u").d + iv))),
    "cte": lambda Q, iv: Q.with_(Q.from_(Table("u")).select((Table("u").d + iv).as_("x")), "c1").from_(AliasedQuery("c1")).select("x"),
    "setop_right": lambda Q, iv: Q.from_(Table("t")).select("d").union(Q.from_(Table("u")).select(Table("u").d + iv)),
    "setop_orderby": lambda Q, iv: Q.from_(Table("t")).select("d").union(Q.from_(Table("u")).select("d")).orderby(Field("d") + iv),
    "delete_where": lambda Q, iv: Q.from_(Table("t")).delete().where(Table("t").d < Function("NOW") - iv),
    "update_where": lambda Q, iv: Q.update(Table("t")).set("a", 1).where(Table("t").d < Function("NOW") - iv),
    "update_join": lambda Q, iv: Q.update(Table("t")).join(Table("u")).on(Table("t").id == Table("u").id).set(Table("t").d, Table("u").d + iv),
    "case_in_set": lambda Q, iv: Q.update(Table("t")).set("d", Case().when(Table("t").a == 1, Table("t").d + iv).else_(Table("t").d)),
    "window_order": lambda Q, iv: Q.from_(Table("t")).select(AN.Rank().over(Table("t").a).orderby(Table("t").d + iv)),
    "agg_filter": lambda Q, iv: Q.from_(Table("t")).select(FN.Count("*").filter(Table("t").d > Function("NOW") - iv)),
    # row sources / operands built through another dialect's class than the statement that embeds them
    "sub_other_cls_in_from": lambda Q, iv: (lambda sq: Q.from_(sq).select(sq.x))(_other(Q).from_(Table("u")).select((Table("u").d + iv).as_("x")).as_("sq")),
    "setop_other_cls_in_from": lambda Q, iv: (lambda so: Q.from_(so).select(so.x))(
        _other(Q).from_(Table("u")).select((Table("u").d + iv).as_("x")).union(_other(Q).from_(Table("v")).select(Table("v").d)).as_("so")),
    "setop_other_cls_in_where": lambda Q, iv: Q.from_(Table("t")).select("a").where(Table("t").d.isin(
        _other(Q).from_(Table("u")).select(Table("u").d).intersect(_other(Q).from_(Table("v")).select(Table("v").d + iv)))),
    "setop_other_cls_joined": lambda Q, iv: (lambda so: Q.from_(Table("t")).join(so).on(Table("t").d == so.x).select("a"))(
        _other(Q).from_(Table("u")).select((Table("u").d + iv).as_("x")).union_all(_other(Q).from_(Table("v")).select(Table("v").d)).as_("so")),
    "create_as": lambda Q, iv: Q.create_table("n").as_select(Q.from_(Table("t")).select(Table("t").d + iv)),
}
EMBED_IVS = [dict(days=1, hours=2, dialect="MYSQL"), dict(hours=36, dialect="POSTGRESQL"), dict(days=3, dialect="ORACLE"), dict(days=1), dict(days=10, minutes=5), dict(hours=36), dict(years=1, months=2), dict(seconds=1, microseconds=5),
             dict(days=-3), dict(weeks=2), dict(quarters=1), dict(days=1, hours=2, minutes=3, seconds=4)]


def _zoo_embed():
    """every term kind of the zoo with the interval in each of its operand slots (kinds whose constructor needs a
    column there - it calls a column method on the operand - are left out: listed in the evidence as not constructible)"""
    from mc import zoo
    out, skipped = {}, []
    for name, n, b in zoo.term_zoo()[0]:
        # Values / AtTimezone take a column *name* there (it is quoted as an identifier); the zoo's NestedCriterion glues its
        # operands with a comparator that has no surrounding blanks, so the unit keyword cannot be told from the next word
        if name in ("QueryBuilder", "_SetOperation", "Interval", "Values", "AtTimezone", "NestedCriterion"):
            continue
        for slot in range(n):
            def build(iv, b=b, n=n, slot=slot):
                return b([(iv if i == slot else Field("c%d" % i, table=Table("t"))) for i in range(n)])

            try:
                text = build(Interval(days=1)).get_sql(fp.CTX["generic"])
                if "INTERVAL" not in text:
                    raise ValueError("operand not rendered")
            except Exception as e:
                skipped.append("%s[%d]:%s" % (name, slot, type(e).__name__))
                continue
            out["zoo:%s:%d" % (name, slot)] = build
    return out, skipped


ZOO_EMBED, ZOO_SKIPPED = _zoo_embed()
EMBED.update(ZOO_EMBED)


def chunks(tier, seed):
    dom = DOM[tier]
    out = [{"kind": "ymd", "y": y, "m": m, "tier": tier} for y in dom for m in dom]
    out.append({"kind": "qw", "tier": tier})
    out.append({"kind": "big", "tier": tier})
    out.append({"kind": "embed", "tier": tier})
    return out


def expand(chunk):
    if chunk["kind"] == "embed":
        for i in range(len(EMBED_IVS)):
            for pos in list(EMBED) + ["stmt:" + k for k in STMT_EMBED]:
                if pos.startswith("zoo:") and i > 3 and chunk["tier"] == "quick":
                    continue
                yield {"k": "embed", "iv": i, "pos": pos}
        return
    if chunk["kind"] == "big":
        # components beyond the range a double represents exactly (2**53 + 1, 17 digits) and other many-digit values
        for v in (9007199254740993, 12345678901234567, 10 ** 18, 4294967297):
            for i in range(7):
                comp = [0] * 7
                comp[i] = v
                yield {"k": "ymd", "c": comp, "neg": False}
                yield {"k": "ymd", "c": comp, "neg": True}
                for j in range(7):
                    if j != i:
                        c2 = list(comp)
                        c2[j] = 1
                        yield {"k": "ymd", "c": c2, "neg": False}
        return
    if chunk["kind"] == "qw":
        for v in [1, 10, 100, 101, -3, -10, 7]:
            yield {"k": "quarters", "v": v}
            yield {"k": "weeks", "v": v}
        return
    dom = DOM[chunk["tier"]]
    for rest in itertools.product(dom, repeat=5):
        comp = [chunk["y"], chunk["m"]] + list(rest)
        yield {"k": "ymd", "c": comp, "neg": False}
        if any(comp):
            yield {"k": "ymd", "c": comp, "neg": True}


def _cls(v):
    v = abs(v)
    return "0" if v == 0 else ("d0" if v % 10 == 0 else "d")


EXTRACT = {"in": re.compile(r"INTERVAL '[^']*'"), "out": re.compile(r"INTERVAL '[^']*'(?: [A-Z_]+)?")}


def run_embed(case, res):
    global _CTXS
    if _CTXS is None:
        _CTXS = all_contexts()
    kw = dict(EMBED_IVS[case["iv"]])
    if "dialect" in kw:
        # the constructor's optional dialect keyword: the statement's dialect still decides the form of the literal
        from pypika_tortoise.enums import Dialects
        kw["dialect"] = Dialects[kw["dialect"]]
    pos = case["pos"]
    # what the bare literal reads as (reference: the component model)
    if "weeks" in kw or "quarters" in kw:
        k, v = next(iter(kw.items()))
        exp = (1, "QUARTER" if k == "quarters" else "WEEK", [v])
    else:
        comp = [kw.get(u, 0) for u in ("years", "months", "days", "hours", "minutes", "seconds", "microseconds")]  # (dialect keyword ignored)
        exp = expected(comp)
    res.nontrivial = 1
    res.states.append(h64(repr((sorted((k_, str(v_)) for k_, v_ in kw.items()), pos))))
    for name, (ctx, form) in _CTXS.items():
        if pos.startswith("stmt:"):
            if name.startswith("enum:"):
                continue
            Q = fp.QCLS[name]
            texts = []
            # every way of rendering a statement built through the dialect's query class
            if pos == "stmt:conflict_update_where" and name == "mysql":
                continue  # ON DUPLICATE KEY UPDATE has no WHERE: the clause is not part of a MySQL statement
            modes = (lambda o: o.get_sql(Q.SQL_CONTEXT), lambda o: str(o), lambda o: o.get_sql(), lambda o: o.get_parameterized_sql()[0],
                     lambda o: fp.render_param(o, Q.SQL_CONTEXT)[0])
            if pos.startswith("stmt:setop") or pos == "stmt:create_as":
                modes = (modes[0], modes[1], modes[4])  # set operations and CREATE TABLE builders have no argument-less get_sql() / get_parameterized_sql()
            for mode in modes:
                try:
                    texts.append(mode(STMT_EMBED[pos[5:]](Q, Interval(**kw))))
                except Exception as e:
                    texts.append("!" + type(e).__name__)
            if not (pos.startswith("stmt:setop") or pos == "stmt:create_as" or "other_cls" in pos or "via_table" in pos):
                # the statement built through the generic class and rendered with this dialect's context handed over explicitly
                for mode in (lambda o: o.get_sql(Q.SQL_CONTEXT), lambda o: o.get_parameterized_sql(Q.SQL_CONTEXT)[0]):
                    try:
                        texts.append(mode(STMT_EMBED[pos[5:]](fp.QCLS["generic"], Interval(**kw))))
                    except Exception as e:
                        texts.append("!" + type(e).__name__)
            text = texts[0]
            for alt in texts[1:]:
                lits_alt = EXTRACT[form].findall(alt)
                if len(lits_alt) != 1 or ref_read(lits_alt[0], form) != exp:
                    text = alt  # report the deviating mode below
                    break
        else:
            try:
                text = EMBED[pos](Interval(**kw)).get_sql(ctx)
            except Exception as e:
                text = "!" + type(e).__name__
        res.transitions += 1
        res.outcomes.append(h64(text))
        lits = EXTRACT[form].findall(text)
        n_want = 2 if pos == "between" else 1
        reads = [ref_read(l, form) for l in lits]
        if len(lits) != n_want or any(r != exp for r in reads):
            res.violate("C18|embedded|%s|%s" % (form, pos if pos.startswith("stmt") else (pos.rsplit(":", 1)[0] if pos.startswith("zoo:") else pos)),
                        "an interval inside a larger expression / statement is not rendered in the target dialect's form with the requested components",
                        context=name, position=pos, components=kw, rendered=text, literals=lits, read_back=reads, expected=exp)


def run_case(case):
    res = Result()
    if case["k"] == "embed":
        run_embed(case, res)
        return res
    global _CTXS
    if _CTXS is None:
        _CTXS = all_contexts()
    res.nontrivial = 1
    if case["k"] in ("quarters", "weeks"):
        v = case["v"]
        iv = Interval(**{case["k"]: v})
        exp = (-1 if v < 0 else 1, "QUARTER" if case["k"] == "quarters" else "WEEK", [abs(v)])
        comp = None
    else:
        comp = list(case["c"])
        if case["neg"]:
            i = next(i for i, v in enumerate(comp) if v)
            comp[i] = -comp[i]
        iv = Interval(*comp)
        exp = expected(comp)
    # duplicates of the interval (copy, deepcopy, pickle) denote the same duration
    base_text = None
    try:
        base_text = iv.get_sql(fp.CTX["mysql"])
        for how, dup in (("copy", copy.copy(iv)), ("deepcopy", copy.deepcopy(iv)), ("pickle", pickle.loads(pickle.dumps(iv, 2)))):
            res.transitions += 1
            t2 = dup.get_sql(fp.CTX["mysql"])
            if t2 != base_text:
                res.violate("C18|duplicate|%s|%s" % (how, "neg" if exp[0] < 0 else "pos"), "a %s of the interval renders another literal" % how,
                            components=comp if comp is not None else {case["k"]: case["v"]}, original=base_text, duplicate=t2)
                break
    except Exception as e:
        res.violate("C18|duplicate|raises|%s" % type(e).__name__, "duplicating / rendering the interval raised",
                    components=comp if comp is not None else {case["k"]: case["v"]})
    for d, (ctx, form) in _CTXS.items():
        res.transitions += 1
        try:
            text = iv.get_sql(ctx)
        except Exception as e:
            text = "!" + type(e).__name__
        res.outcomes.append(h64(text))
        got = ref_read(text, form)
        if got != exp:
            pat = ",".join(_cls(v) for v in comp) if comp is not None else case["k"]
            res.violate("C18|%s|%s|%s" % (form if not d.startswith("enum:") or d in ("enum:ORACLE", "enum:MYSQL", "enum:POSTGRESQL", "enum:SQLITE", "enum:MSSQL") else form + ":" + d[5:].lower(),
                                          "neg" if exp[0] < 0 else "pos", pat),
                        "interval literal does not denote the requested components",
                        dialect=d, components=comp if comp is not None else {case["k"]: case["v"]}, rendered=text,
                        read_back=got, expected=exp)
    res.states.append(h64(repr(exp)))
    return res


def describe():
    return {
        "rule": "all 7-tuples (years..microseconds) over the digit-pattern domain, each also with its leading "
                "non-zero component negated, plus quarters/weeks values; every tuple rendered under the six "
                "dialect contexts and read back by the reference reader; all cases non-trivial; states = distinct "
                "expected (sign, unit, fields); outcomes = distinct literals",
        "bound": {"quick": "domain {0,1,10,12,100}^7 x {+,-} x 6 contexts",
                  "thorough": "domain {0,1,5,10,20,100,101,12}^7 x {+,-} x 6 contexts"},
        "assumptions": [
            "the trimming regex distinguishes only '0', non-'0' digits and the separators, so the digit-pattern "
            "domain (zero, value ending in 0, interior zero, multi-digit) represents all non-negative ints",
            "fields are read as integers in the layout 'Y-M-D h:m:s.f' restricted to the designator's span",
            "quoting forms per dialect come from the reference table FORM (vendor syntax)",
        ],
    }
