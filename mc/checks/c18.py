"""C18 — interval literals encode exactly the requested duration.

Bounded-exhaustive enumeration of all 7-tuples over a digit-pattern domain (+ negated leading component,
quarters, weeks) x all six dialect contexts; the rendered literal is parsed back by an independent
reference reader (unit designator -> field layout) and compared with the constructor arguments.
"""
from __future__ import annotations

import itertools
import re

from mc.common import Result, h64
from mc import fp

from pypika_tortoise.terms import Interval

PROPERTY = "C18"

DOM = {"quick": [0, 1, 10, 12, 100], "thorough": [0, 1, 5, 10, 20, 100, 101, 12]}
LABELS = ["YEAR", "MONTH", "DAY", "HOUR", "MINUTE", "SECOND", "MICROSECOND"]
SEP_AFTER = ["-", "-", " ", ":", ":", "."]  # separator between field i and i+1 in 'Y-M-D h:m:s.f'

# quoting form per target dialect (reference table, written from the vendors' syntax, not from the library):
#   PostgreSQL: INTERVAL '<expr> <unit>'      MySQL / Oracle: INTERVAL '<expr>' <unit>     others: INTERVAL '<expr> <unit>'
FORM = {"postgresql": "in", "mysql": "out", "oracle": "out", "generic": "in", "sqlite": "in", "mssql": "in"}

LIT = {
    "in": re.compile(r"^INTERVAL '(?P<expr>[^']*) (?P<unit>[A-Z_]+)'$"),
    "out": re.compile(r"^INTERVAL '(?P<expr>[^']*)' (?P<unit>[A-Z_]+)$"),
}


def ref_read(text, form):
    """-> (sign, unit, [field ints]) or None if the literal does not have the dialect's quoting form."""
    m = LIT[form].match(text)
    if not m:
        return None
    expr, unit = m.group("expr"), m.group("unit")
    sign = 1
    if expr.startswith("-"):
        sign, expr = -1, expr[1:]
    if unit in ("QUARTER", "WEEK"):
        if not re.fullmatch(r"\d+", expr):
            return None
        return sign, unit, [int(expr)]
    parts = unit.split("_")
    if any(p not in LABELS for p in parts) or len(parts) > 2:
        return None
    lo = LABELS.index(parts[0])
    hi = LABELS.index(parts[-1])
    if hi < lo:
        return None
    rx = r"(\d+)"
    for i in range(lo, hi):
        rx += re.escape(SEP_AFTER[i]) + r"(\d+)"
    mm = re.fullmatch(rx, expr)
    if not mm:
        return None
    return sign, unit, [int(g) for g in mm.groups()]


def expected(comp):
    """reference model: (sign, unit, fields) for a 7-tuple whose leading non-zero component may be negative."""
    nz = [i for i, v in enumerate(comp) if v]
    if not nz:
        return 1, "DAY", [0]
    lo, hi = nz[0], nz[-1]
    sign = -1 if comp[lo] < 0 else 1
    unit = LABELS[lo] if lo == hi else LABELS[lo] + "_" + LABELS[hi]
    return sign, unit, [abs(v) for v in comp[lo:hi + 1]]


def chunks(tier, seed):
    dom = DOM[tier]
    out = [{"kind": "ymd", "y": y, "m": m, "tier": tier} for y in dom for m in dom]
    out.append({"kind": "qw", "tier": tier})
    return out


def expand(chunk):
    if chunk["kind"] == "qw":
        for v in [1, 10, 100, 101, -3, -10, 7]:
            yield {"k": "quarters", "v": v}
            yield {"k": "weeks", "v": v}
        return
    dom = DOM[chunk["tier"]]
    for rest in itertools.product(dom, repeat=5):
        comp = [chunk["y"], chunk["m"]] + list(rest)
        yield {"k": "ymd", "c": comp, "neg": False}
        if any(comp):
            yield {"k": "ymd", "c": comp, "neg": True}


def _cls(v):
    v = abs(v)
    return "0" if v == 0 else ("d0" if v % 10 == 0 else "d")


def run_case(case):
    res = Result()
    res.nontrivial = 1
    if case["k"] in ("quarters", "weeks"):
        v = case["v"]
        iv = Interval(**{case["k"]: v})
        exp = (-1 if v < 0 else 1, "QUARTER" if case["k"] == "quarters" else "WEEK", [abs(v)])
        comp = None
    else:
        comp = list(case["c"])
        if case["neg"]:
            i = next(i for i, v in enumerate(comp) if v)
            comp[i] = -comp[i]
        iv = Interval(*comp)
        exp = expected(comp)
    for d, ctx in fp.CTX.items():
        res.transitions += 1
        try:
            text = iv.get_sql(ctx)
        except Exception as e:
            text = "!" + type(e).__name__
        res.outcomes.append(h64(text))
        got = ref_read(text, FORM[d])
        if got != exp:
            pat = ",".join(_cls(v) for v in comp) if comp is not None else case["k"]
            res.violate("C18|%s|%s|%s" % (FORM[d], "neg" if exp[0] < 0 else "pos", pat),
                        "interval literal does not denote the requested components",
                        dialect=d, components=comp if comp is not None else {case["k"]: case["v"]}, rendered=text,
                        read_back=got, expected=exp)
    res.states.append(h64(repr(exp)))
    return res


def describe():
    return {
        "rule": "all 7-tuples (years..microseconds) over the digit-pattern domain, each also with its leading "
                "non-zero component negated, plus quarters/weeks values; every tuple rendered under the six "
                "dialect contexts and read back by the reference reader; all cases non-trivial; states = distinct "
                "expected (sign, unit, fields); outcomes = distinct literals",
        "bound": {"quick": "domain {0,1,10,12,100}^7 x {+,-} x 6 contexts",
                  "thorough": "domain {0,1,5,10,20,100,101,12}^7 x {+,-} x 6 contexts"},
        "assumptions": [
            "the trimming regex distinguishes only '0', non-'0' digits and the separators, so the digit-pattern "
            "domain (zero, value ending in 0, interior zero, multi-digit) represents all non-negative ints",
            "fields are read as integers in the layout 'Y-M-D h:m:s.f' restricted to the designator's span",
            "quoting forms per dialect come from the reference table FORM (vendor syntax)",
        ],
    }
