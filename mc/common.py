"""Shared runner: binding to the tree under test, fork pool, known findings, replay files, evidence.

Every check module (mc/checks/cXX.py) exposes

    PROPERTY   = "C01"
    def chunks(tier, seed) -> list            # JSON-able work units, fixed partition (seed-independent)
    def expand(chunk) -> iterable of cases    # JSON-able atomic cases (a history / program / value tuple)
    def run_case(case) -> Result              # executes ONE case on the real library + reference model
    def describe() -> dict                    # static text for the evidence file (rule, bound, assumptions)

The runner executes every case of every chunk (nothing is sampled), merges results in enumeration
order, attributes violations to signatures, and separates listed known findings from new violations.
"""
from __future__ import annotations

import hashlib
import json
import os
import sys
import time
import traceback

VERIF_DIR = os.path.dirname(os.path.dirname(os.path.abspath(__file__)))
REPO = os.environ.get("VERIF_REPO", "/repo")
OUT_DIR = os.environ.get("VERIF_OUT", VERIF_DIR)  # mutation runs write evidence/replays elsewhere


def bind_repo():
    """Make `import pypika_tortoise` resolve to the working tree under test and assert that it did."""
    sys.dont_write_bytecode = True
    if sys.path[0] != REPO:
        sys.path.insert(0, REPO)
    import pypika_tortoise  # noqa

    f = os.path.realpath(pypika_tortoise.__file__)
    if not f.startswith(os.path.realpath(REPO) + os.sep):
        print("HARNESS-ERROR: pypika_tortoise imported from %s, not from %s" % (f, REPO))
        sys.exit(2)
    return pypika_tortoise


def reexec_fixed_hashseed():
    """Re-execute the interpreter with PYTHONHASHSEED=0 so that a run is reproducible.
    (Hash-seed variation is an explored dimension of C02, not ambient noise.)"""
    if os.environ.get("PYTHONHASHSEED") != "0":
        env = dict(os.environ)
        env["PYTHONHASHSEED"] = "0"
        env["PYTHONDONTWRITEBYTECODE"] = "1"
        os.execve(sys.executable, [sys.executable] + sys.argv_orig, env)


def library_frame(e):
    """name of the deepest library function on the traceback if the exception came out of the library (no harness
    frame below it), else None (= the harness itself failed)."""
    tb = e.__traceback__
    frames = []
    while tb is not None:
        frames.append(os.path.realpath(tb.tb_frame.f_code.co_filename) + ":" + tb.tb_frame.f_code.co_name)
        tb = tb.tb_next
    repo = os.path.realpath(REPO) + os.sep
    verif = os.path.realpath(VERIF_DIR) + os.sep
    last_verif = max([i for i, f in enumerate(frames) if f.startswith(verif)], default=-1)
    lib = [f for f in frames[last_verif + 1:] if f.startswith(repo)]
    return lib[-1].rsplit(":", 1)[1] if lib else None


class Result:
    """Outcome of one atomic case."""

    __slots__ = ("violations", "transitions", "states", "outcomes", "nontrivial", "warnings", "extra")

    def __init__(self):
        self.violations = []  # list of dict(sig=..., what=..., detail=...)
        self.transitions = 0  # library calls executed (builder calls / renders)
        self.states = []  # hashes of distinct states visited
        self.outcomes = []  # hashes of distinct observed outputs (anti-vacuity)
        self.nontrivial = 0  # 1 if this case exercises the mechanism by the check's rule
        self.warnings = []
        self.extra = {}

    def violate(self, sig, what, **detail):
        self.violations.append({"sig": sig, "what": what, "detail": detail})


def h64(s) -> int:
    if not isinstance(s, bytes):
        s = str(s).encode("utf-8", "surrogatepass")
    return int.from_bytes(hashlib.blake2b(s, digest_size=8).digest(), "big")


def load_known():
    p = os.path.join(VERIF_DIR, "known_findings.json")
    if not os.path.exists(p):
        return []
    with open(p) as f:
        return json.load(f)["findings"]


def case_key(case):
    """identity of a case (the input of run_case), independent of what the library does with it"""
    try:
        c = {k: v for k, v in case.items() if not str(k).startswith("_")} if isinstance(case, dict) else case
    except Exception:
        c = case
    return "%012x" % (h64(json.dumps(c, sort_keys=True, default=str)) & 0xFFFFFFFFFFFF)


def witness_file(prop):
    return os.path.join(VERIF_DIR, "known_witnesses", prop + ".json")


def load_witnesses(prop):
    """signature -> set of case keys that fail with that (known) signature on the reference tree, or {} when not recorded"""
    try:
        with open(witness_file(prop)) as f:
            return {k: set(v) for k, v in json.load(f).items()}
    except Exception:
        return {}


def _work(args):
    modname, chunk = args
    mod = sys.modules[modname]
    _t0 = time.time()
    out = {
        "cases": 0,
        "transitions": 0,
        "states": set(),
        "outcomes": set(),
        "nontrivial": set(),
        "viol": [],
        "warn": [],
        "sample": None,
        "extra": {},
        "error": None,
    }
    try:
        for case in mod.expand(chunk):
            try:
                r = mod.run_case(case)
            except Exception as e:
                # an exception escaping from inside the library on a program the harness considers valid is a finding
                # about the library (it must be reported as a violation, not as a broken harness); an exception raised
                # by harness code itself is a harness error
                lib = library_frame(e)
                if lib is None:
                    raise
                r = Result()
                r.nontrivial = 1
                r.violate("%s|unexpected-exception|%s|%s" % (mod.PROPERTY, type(e).__name__, lib),
                          "the library raised %s: %s while executing a program of this check" % (type(e).__name__, str(e)[:200]),
                          traceback=traceback.format_exc()[-1500:])
            out["cases"] += 1
            out["transitions"] += r.transitions
            out["states"].update(r.states)
            out["outcomes"].update(r.outcomes)
            if r.nontrivial:
                out["nontrivial"].add(h64(json.dumps(case, sort_keys=True, default=str)))
            if out["sample"] is None and r.nontrivial:
                out["sample"] = case
            for v in r.violations:
                v["case"] = case
                out["viol"].append(v)
            for w in r.warnings:
                if len(out["warn"]) < 20:
                    out["warn"].append(w)
            for k, v in r.extra.items():
                if isinstance(v, (int, float)):
                    out["extra"][k] = out["extra"].get(k, 0) + v
                elif isinstance(v, (set, frozenset)):
                    out["extra"].setdefault(k, set()).update(v)
                else:
                    out["extra"].setdefault(k, v)
    except Exception:
        out["error"] = "chunk %r: %s" % (chunk, traceback.format_exc())
    out["secs"] = time.time() - _t0
    out["chunk"] = chunk
    return out


def run_check(mod, tier, seed, only_case=None):
    """Run a whole check; print KNOWN-FINDING / VIOLATION lines; write evidence; return exit code."""
    import multiprocessing as mp

    t0 = time.time()
    prop = mod.PROPERTY
    chunks = list(mod.chunks(tier, seed))
    nproc = int(os.environ.get("VERIF_JOBS", "0")) or min(16, os.cpu_count() or 1)
    jobs = [(mod.__name__, c) for c in chunks]
    if nproc > 1 and len(jobs) > 1:
        ctx = mp.get_context("fork")
        with ctx.Pool(nproc) as pool:
            results = pool.map(_work, jobs, chunksize=1)
    else:
        results = [_work(j) for j in jobs]

    if os.environ.get("VERIF_TIMING"):
        for r in sorted(results, key=lambda r: -r["secs"])[:12]:
            print("TIMING %.1fs %s" % (r["secs"], str(r["chunk"])[:150]))
        print("TIMING total cpu %.0fs" % sum(r["secs"] for r in results))
    errors = [r["error"] for r in results if r["error"]]
    if errors:
        print("HARNESS-ERROR property=%s %s" % (prop, errors[0]))
        return 2

    cases = sum(r["cases"] for r in results)
    transitions = sum(r["transitions"] for r in results)
    states, outcomes, nontrivial = set(), set(), set()
    extra = {}
    for r in results:
        states |= r["states"]
        outcomes |= r["outcomes"]
        nontrivial |= r["nontrivial"]
        for k, v in r["extra"].items():
            if isinstance(v, (int, float)):
                extra[k] = extra.get(k, 0) + v
            elif isinstance(v, set):
                extra.setdefault(k, set()).update(v)
            else:
                extra.setdefault(k, v)
    samples = [r["sample"] for r in results if r["sample"] is not None][:5]
    if not samples:
        samples = [c for c in list(mod.expand(chunks[0]))[:2]] if chunks else []
    warns = [w for r in results for w in r["warn"]][:20]

    # ---- attribution ----
    known = {(k["property"], k["signature"]): k for k in load_known()}
    by_sig = {}
    for r in results:  # enumeration order => first witness per signature is the simplest
        for v in r["viol"]:
            by_sig.setdefault(v["sig"], []).append(v)
    new_sigs, known_seen = [], []
    # A known finding is identified by its root-cause signature AND by the inputs that fail with it on the reference tree
    # (known_witnesses/<prop>.json, written by tools/record_witnesses.py, never at run time): an input that newly fails with
    # a known signature is a different violation and is reported as such.
    recorded = load_witnesses(prop)
    record = os.environ.get("VERIF_RECORD_WITNESSES")
    to_record = {}
    for sig, vs in list(by_sig.items()):
        k = known.get((prop, sig))
        if k is not None and k.get("status") == "known":
            known_seen.append(sig)
            print("KNOWN-FINDING: property=%s %s [%s; %d witnesses]" % (prop, k["what_fails"], sig, len(vs)))
            if record:
                to_record[sig] = sorted({case_key(v["case"]) for v in vs})
            elif sig in recorded:
                fresh = [v for v in vs if case_key(v["case"]) not in recorded[sig]]
                if fresh:
                    nsig = sig + "|new-witness"
                    for v in fresh:
                        v = dict(v)
                    by_sig[nsig] = [dict(v, what=v["what"] + " (this input does not fail on the reference tree; the known finding "
                                         "of this signature covers other inputs)") for v in fresh]
                    new_sigs.append(nsig)
        else:
            new_sigs.append(sig)
    if record:
        os.makedirs(os.path.dirname(witness_file(prop)), exist_ok=True)
        old = {k_: set(v_) for k_, v_ in load_witnesses(prop).items()}
        for sig, keys in to_record.items():
            old.setdefault(sig, set()).update(keys)
        with open(witness_file(prop), "w") as f:
            json.dump({k_: sorted(v_) for k_, v_ in sorted(old.items())}, f, separators=(",", ":"))
    rc = 0
    rdir = os.path.join(OUT_DIR, "replays", prop)
    for i, sig in enumerate(new_sigs):
        v = by_sig[sig][0]
        os.makedirs(rdir, exist_ok=True)
        path = os.path.join(rdir, "%016x.json" % h64(sig))
        with open(path, "w") as f:
            json.dump(
                {"property": prop, "signature": sig, "what": v["what"], "detail": v["detail"], "case": v["case"],
                 "witnesses": len(by_sig[sig])},
                f, indent=1, default=str)
        if i < 25:
            print("VIOLATION property=%s replay=%s" % (prop, path))
            print("  signature: %s" % sig)
            print("  what: %s" % v["what"])
            for dk, dv in list(v["detail"].items())[:6]:
                print("  %s: %s" % (dk, str(dv)[:300]))
        rc = 1
    if len(new_sigs) > 25:
        print("  ... %d further new signatures (see %s)" % (len(new_sigs) - 25, rdir))

    # ---- evidence ----
    d = mod.describe()
    caps = d.get("caps_hit", [])
    cov = {
        "states": max(1, len(states)),
        "transitions": max(1, transitions),
        "traces_validated_against_impl": cases,
        "evaluations": cases,
        "distinct_nontrivial": len(nontrivial),
        "distinct_outcomes": len(outcomes),
        "rule": d.get("rule", ""),
        "samples": samples,
        "exhaustive": not caps,
        "bound": d.get("bound", {}).get(tier, d.get("bound")),
        "caps_hit": caps,
        "chunks": len(chunks),
        "known_findings_seen": sorted(known_seen),
        "new_signatures": sorted(new_sigs)[:50],
        "warnings": warns,
    }
    for k, v in extra.items():
        cov[k] = sorted(v)[:200] if isinstance(v, set) else v
    ev = {
        "property_id": prop,
        "tier": tier,
        "seed": seed,
        "level": "model_checking",
        "coverage": cov,
        "assumptions": d.get("assumptions", []),
        "wall_s": round(time.time() - t0, 2),
        "violations": len(new_sigs),
    }
    os.makedirs(os.path.join(OUT_DIR, "evidence"), exist_ok=True)
    with open(os.path.join(OUT_DIR, "evidence", prop + ".json"), "w") as f:
        json.dump(ev, f, indent=1, default=str)
    print(
        "%s tier=%s cases=%d transitions=%d states=%d outcomes=%d nontrivial=%d known=%d new=%d wall=%.1fs"
        % (prop, tier, cases, transitions, len(states), len(outcomes), len(nontrivial), len(known_seen),
           len(new_sigs), time.time() - t0)
    )
    return rc
