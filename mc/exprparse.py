"""Reference precedence parser for SQL expressions (standard precedence), independent of the library.

    OR < XOR < AND < NOT < comparison/IN/BETWEEN/LIKE/IS NULL (left-assoc loop) < & < + - < * / < unary - < primary

parse(tokens) -> tree of tuples:
  ("id", (q1, q2, ...))  ("num", v)  ("str", s)  ("null",)  ("par", n)  ("bool", b)
  ("neg", x) ("not", x) ("arith", op, l, r) ("cmp", op, l, r) ("like", kw, l, r) ("in", x, [items], negated)
  ("between", x, lo, hi, negated) ("isnull", x, negated) ("logic", op, l, r) ("case", [(w, t)...], else|None)
  ("func", NAME, [args]) ("bitand", l, r) ("tuple", [items]) ("star",)
norm(tree) applies exactly the re-associations that cannot change a value: a pure +/- chain becomes an ordered
list of signed operands, a pure * chain a list, an AND/OR/XOR chain of one connective a list; unary minus is a sign.
"""
from __future__ import annotations

import decimal
import math

from mc.lexer import LexError, lex


class ParseError(Exception):
    pass


CMP = {"=", "<>", "!=", "<", "<=", ">", ">="}
LIKES = {"LIKE", "ILIKE", "RLIKE", "REGEX", "GLOB", "REGEXP"}
KEYWORDS_STOP = {"AND", "OR", "XOR", "NOT", "THEN", "WHEN", "ELSE", "END", "AS", "FROM", "WHERE", "IS", "IN",
                 "BETWEEN", "LIKE", "ILIKE", "RLIKE", "REGEX", "GLOB", "CASE", "NULL", "ASC", "DESC"}


class P:
    def __init__(self, toks):
        self.t = toks
        self.i = 0

    def peek(self, k=0):
        return self.t[self.i + k] if self.i + k < len(self.t) else None

    def isop(self, *ops):
        t = self.peek()
        return t is not None and t.kind == "OP" and t.text in ops

    def isword(self, *ws, k=0):
        t = self.peek(k)
        return t is not None and t.kind == "WORD" and t.value in ws

    def eat(self):
        t = self.peek()
        if t is None:
            raise ParseError("unexpected end")
        self.i += 1
        return t

    def expect_op(self, op):
        if not self.isop(op):
            raise ParseError("expected %r at token %d (%r)" % (op, self.i, self.peek()))
        return self.eat()

    def expect_word(self, w):
        if not self.isword(w):
            raise ParseError("expected %s at token %d (%r)" % (w, self.i, self.peek()))
        return self.eat()

    # ---- grammar
    def expr(self):
        return self.or_()

    def or_(self):
        l = self.xor_()
        while self.isword("OR"):
            self.eat()
            l = ("logic", "OR", l, self.xor_())
        return l

    def xor_(self):
        l = self.and_()
        while self.isword("XOR"):
            self.eat()
            l = ("logic", "XOR", l, self.and_())
        return l

    def and_(self):
        l = self.not_()
        while self.isword("AND"):
            self.eat()
            l = ("logic", "AND", l, self.not_())
        return l

    def not_(self):
        if self.isword("NOT"):
            self.eat()
            return ("not", self.not_())
        return self.cmp_()

    def cmp_(self):
        l = self.bit_()
        while True:
            t = self.peek()
            if t is None:
                return l
            if t.kind == "OP" and t.text in CMP:
                self.eat()
                l = ("cmp", "<>" if t.text == "!=" else t.text, l, self.bit_())
                continue
            neg = False
            save = self.i
            if self.isword("NOT") and self.isword("IN", "BETWEEN", *LIKES, k=1):
                self.eat()
                neg = True
            if self.isword(*LIKES):
                kw = self.eat().value
                if kw == "REGEX" and self.isword("BINARY"):
                    self.eat()
                    kw = "REGEX BINARY"
                l = ("like", ("NOT " if neg else "") + kw, l, self.bit_())
                continue
            if self.isword("IN"):
                self.eat()
                self.expect_op("(")
                items = []
                if not self.isop(")"):
                    items.append(self.expr())
                    while self.isop(","):
                        self.eat()
                        items.append(self.expr())
                self.expect_op(")")
                l = ("in", l, items, neg)
                continue
            if self.isword("BETWEEN"):
                self.eat()
                lo = self.bit_()
                self.expect_word("AND")
                hi = self.bit_()
                l = ("between", l, lo, hi, neg)
                continue
            if self.isword("IS"):
                self.eat()
                n2 = False
                if self.isword("NOT"):
                    self.eat()
                    n2 = True
                self.expect_word("NULL")
                l = ("isnull", l, n2)
                continue
            self.i = save
            return l

    def bit_(self):
        l = self.add_()
        while self.isop("&"):
            self.eat()
            l = ("bitand", l, self.add_())
        return l

    def add_(self):
        l = self.mul_()
        while self.isop("+", "-"):
            op = self.eat().text
            l = ("arith", op, l, self.mul_())
        return l

    def mul_(self):
        l = self.unary()
        while self.isop("*", "/"):
            op = self.eat().text
            l = ("arith", op, l, self.unary())
        return l

    def unary(self):
        if self.isop("-"):
            self.eat()
            return ("neg", self.unary())
        if self.isop("+"):
            self.eat()
            return self.unary()
        return self.primary()

    def primary(self):
        t = self.eat()
        if t.kind == "NUM":
            return ("num", t.value)
        if t.kind == "STR":
            return ("str", t.value)
        if t.kind == "PAR":
            return ("par", t.value)
        if t.kind == "ID":
            parts = [t.value]
            while self.isop(".") and self.peek(1) is not None and (self.peek(1).kind == "ID" or (
                    self.peek(1).kind == "OP" and self.peek(1).text == "*")):
                self.eat()
                n = self.eat()
                parts.append("*" if n.kind == "OP" else n.value)
            return ("id", tuple(parts))
        if t.kind == "OP" and t.text == "(" and self.isword("SELECT"):
            # a parenthesised subquery is one opaque operand
            depth = 1
            while depth:
                x = self.eat()
                if x.kind == "OP" and x.text == "(":
                    depth += 1
                elif x.kind == "OP" and x.text == ")":
                    depth -= 1
            return ("subq",)
        if t.kind == "OP" and t.text == "(":
            e = self.expr()
            if self.isop(","):
                items = [e]
                while self.isop(","):
                    self.eat()
                    items.append(self.expr())
                self.expect_op(")")
                return ("tuple", items)
            self.expect_op(")")
            return e
        if t.kind == "OP" and t.text == "*":
            return ("star",)
        if t.kind == "WORD":
            w = t.value
            if w == "NULL":
                return ("null",)
            if w in ("TRUE", "FALSE"):
                return ("bool", w == "TRUE")
            if w == "CASE":
                cases = []
                while self.isword("WHEN"):
                    self.eat()
                    c = self.expr()
                    self.expect_word("THEN")
                    v = self.expr()
                    cases.append((c, v))
                el = None
                if self.isword("ELSE"):
                    self.eat()
                    el = self.expr()
                self.expect_word("END")
                if not cases:
                    raise ParseError("CASE without WHEN")
                return ("case", cases, el)
            if self.isop("("):
                self.eat()
                args = []
                if self.isword("DISTINCT"):
                    self.eat()
                    args.append(("kw", "DISTINCT"))
                if not self.isop(")"):
                    args.append(self.expr())
                    while self.isop(","):
                        self.eat()
                        args.append(self.expr())
                self.expect_op(")")
                return ("func", w, args)
            if w in KEYWORDS_STOP:
                raise ParseError("unexpected keyword %s at %d" % (w, self.i - 1))
            return ("word", w)
        raise ParseError("unexpected token %r at %d" % (t, self.i - 1))


def parse_expr(sql, dialect, values=None):
    """values: the parameter list of a parameterised rendering; the i-th placeholder then parses as that value (an atom)"""
    toks = lex(sql, dialect)
    if values is not None:
        from mc.lexer import Tok

        out, i = [], 0
        for t in toks:
            if t.kind == "PAR":
                if i >= len(values):
                    raise ParseError("more placeholders than values")
                v = values[i]
                i += 1
                if isinstance(v, decimal.Decimal):
                    v = float(v)
                if isinstance(v, bool) or v is None or not isinstance(v, (int, float, str)):
                    out.append(t)
                else:
                    out.append(Tok("STR" if isinstance(v, str) else "NUM", t.text, v, t.start, t.end))
            else:
                out.append(t)
        if i != len(values):
            raise ParseError("more values than placeholders")
        toks = out
    if any(t.kind == "COM" for t in toks):
        raise ParseError("comment token inside expression (operator fusion): %r" % [t.text for t in toks if t.kind == "COM"])
    p = P(toks)
    e = p.expr()
    if p.peek() is not None:
        raise ParseError("trailing tokens from %d: %r" % (p.i, p.t[p.i:p.i + 4]))
    return e


# ---- normalisation ---------------------------------------------------------------------------------------


def _signed(t):
    """normalised node -> (sign, positive core)"""
    k = t[0]
    if k == "num" and isinstance(t[1], (int, float)) and not isinstance(t[1], bool) and (t[1] < 0 or (t[1] == 0 and math.copysign(1, t[1]) < 0)):
        return -1, ("num", -t[1])
    if k == "neg":
        s, c = _signed(t[1])
        return -s, c
    return 1, t


def _wrap(s, c):
    return c if s > 0 else ("neg", c)


def norm(t):
    k = t[0]
    if k in ("id", "num", "str", "null", "par", "bool", "word", "star", "kw", "subq"):
        s, c = _signed(t)
        return _wrap(s, c)
    if k in ("sum", "prod", "div", "chain"):
        return t  # already normalised
    if k == "neg":
        s, c = _signed(norm(t[1]))
        s = -s
        if c[0] == "sum":
            return ("sum", [(-sg if s < 0 else sg, x) for sg, x in c[1]])
        return _wrap(s, c)
    if k == "arith":
        op, l, r = t[1], norm(t[2]), norm(t[3])
        if op in "+-":
            items = []

            def push(sign, x):
                if x[0] == "sum":
                    for sg, y in x[1]:
                        items.append((sign * sg, y))
                else:
                    s, c = _signed(x)
                    items.append((sign * s, c))

            push(1, l)
            push(1 if op == "+" else -1, r)
            return ("sum", items)
        sl, cl = _signed(l)
        sr, cr = _signed(r)
        if op == "*":
            ops = (cl[1] if cl[0] == "prod" else [cl]) + (cr[1] if cr[0] == "prod" else [cr])
            return _wrap(sl * sr, ("prod", ops))
        return _wrap(sl * sr, ("div", cl, cr))
    if k == "logic":
        op, l, r = t[1], norm(t[2]), norm(t[3])
        items = (l[2] if (l[0] == "chain" and l[1] == op) else [l]) + (r[2] if (r[0] == "chain" and r[1] == op) else [r])
        return ("chain", op, items)
    if k == "not":
        return ("not", norm(t[1]))
    if k == "cmp":
        return ("cmp", t[1], norm(t[2]), norm(t[3]))
    if k == "like":
        return ("like", t[1], norm(t[2]), norm(t[3]))
    if k == "in":
        return ("in", norm(t[1]), [norm(x) for x in t[2]], bool(t[3]))
    if k == "between":
        return ("between", norm(t[1]), norm(t[2]), norm(t[3]), bool(t[4]) if len(t) > 4 else False)
    if k == "isnull":
        return ("isnull", norm(t[1]), bool(t[2]) if len(t) > 2 else False)
    if k == "case":
        return ("case", [(norm(c), norm(v)) for c, v in t[1]], norm(t[2]) if t[2] is not None else None)
    if k == "func":
        return ("func", t[1], [norm(a) for a in t[2]])
    if k == "bitand":
        return ("bitand", norm(t[1]), norm(t[2]))
    if k == "tuple":
        return ("tuple", [norm(x) for x in t[1]])
    raise ValueError("norm: unknown node %r" % (t,))
