"""Object-graph fingerprint (deepfp) and observation function (obs) — DESIGN §1.3/§1.4."""
from __future__ import annotations

import datetime
import decimal
import enum
import types
import uuid

from mc.common import bind_repo, h64

bind_repo()
import pypika_tortoise as P  # noqa: E402
from pypika_tortoise import (  # noqa: E402
    MSSQLQuery,
    MySQLQuery,
    OracleQuery,
    PostgreSQLQuery,
    Query,
    SQLLiteQuery,
)
from pypika_tortoise.terms import Node, Parameterizer  # noqa: E402

DIALECTS = [
    ("generic", Query),
    ("mysql", MySQLQuery),
    ("postgresql", PostgreSQLQuery),
    ("sqlite", SQLLiteQuery),
    ("mssql", MSSQLQuery),
    ("oracle", OracleQuery),
]
QCLS = dict(DIALECTS)
CTX = {name: q.SQL_CONTEXT for name, q in DIALECTS}

_ATOM = (type(None), bool, int, float, complex, str, bytes, decimal.Decimal, datetime.date, datetime.time,
         datetime.timedelta, uuid.UUID, slice, range)


def odict(o):
    try:
        return object.__getattribute__(o, "__dict__")
    except AttributeError:
        return None


def deepfp_str(obj, top_attrs=None) -> str:
    """Canonical serialisation of the object graph reachable from obj.
    Shared mutable nodes are numbered at first visit, so the aliasing pattern is part of the key."""
    memo = {}
    out = []

    def walk(o):
        t = type(o)
        if t is str or t is int or t is bool or t is float or o is None:
            out.append("%s:%r" % (t.__name__, o))
            return
        if isinstance(o, enum.Enum):
            out.append("E:%s.%s" % (type(o).__qualname__, o.name))
            return
        if t is not list and t is not tuple and t is not dict and t is not set:
            if isinstance(o, _ATOM):
                out.append("%s:%r" % (type(o).__name__, o))
                return
            if isinstance(o, (type, types.FunctionType, types.BuiltinFunctionType, types.MethodType, types.ModuleType)):
                out.append("C:%s" % getattr(o, "__qualname__", getattr(o, "__name__", "?")))
                return
        i = id(o)
        if i in memo:
            out.append("@%d" % memo[i])
            return
        memo[i] = len(memo)
        if isinstance(o, (list, tuple)):
            out.append("[" if isinstance(o, list) else "(")
            for x in o:
                walk(x)
                out.append(",")
            out.append("]")
        elif isinstance(o, dict):
            out.append("{")
            for k, v in o.items():
                walk(k)
                out.append(":")
                walk(v)
                out.append(",")
            out.append("}")
        elif isinstance(o, (set, frozenset)):
            members = sorted(o, key=lambda m: deepfp_str(m))
            out.append("S{")
            for m in members:
                walk(m)
                out.append(",")
            out.append("}")
        else:
            d = odict(o)
            out.append("<%s" % type(o).__qualname__)
            if d is not None:
                for k in sorted(d):
                    out.append(" %s=" % k)
                    walk(d[k])
            slots = getattr(type(o), "__slots__", None)
            if slots and d is None:
                for k in slots:
                    out.append(" %s=" % k)
                    walk(getattr(o, k, None))
            out.append(">")

    walk(obj)
    return "".join(out)


def deepfp(obj) -> int:
    return h64(deepfp_str(obj))


def attr_fps(obj) -> dict:
    """fingerprint per top-level attribute (for attribution of a change to an attribute path)."""
    d = odict(obj) or {}
    return {k: deepfp_str(v) for k, v in d.items()}


def attr_fps_fast(obj) -> dict:
    """like attr_fps, for change detection on one and the same object at two moments: the C pickler walks the attribute's
    object graph (identity pattern included, through its memo) far faster than the Python walk; what cannot be pickled falls
    back to deepfp_str.  The values are only comparable with earlier values of the same object in the same process."""
    import pickle

    d = odict(obj) or {}
    out = {}
    for k, v in d.items():
        try:
            out[k] = pickle.dumps(v, 5)
        except Exception:
            out[k] = deepfp_str(v)
    return out


def changed_attrs(before: dict, obj) -> list:
    now = attr_fps(obj)
    ch = [k for k in sorted(set(before) | set(now)) if before.get(k) != now.get(k)]
    return ch


def vrepr(v):
    """repr of a parameter value list entry that is stable and shows builder objects as such."""
    if isinstance(v, (list, tuple)):
        return "[" + ",".join(vrepr(x) for x in v) + "]"
    if isinstance(v, dict):
        return "{" + ",".join("%s:%s" % (vrepr(k), vrepr(x)) for k, x in v.items()) + "}"
    if isinstance(v, Node) or hasattr(v, "get_sql"):
        return "<OBJ %s>" % type(v).__qualname__
    return "%s:%r" % (type(v).__name__, v)


def render(o, ctx):
    try:
        return o.get_sql(ctx)
    except Exception as e:  # the exception class is the observation
        return "!%s" % type(e).__name__


def render_param(o, ctx):
    pz = Parameterizer()
    try:
        s = o.get_sql(ctx.copy(parameterizer=pz))
    except Exception as e:
        return "!%s" % type(e).__name__, []
    return s, list(pz.values)


FLAGS = ("as_keyword", "subquery", "with_alias", "with_namespace", "subcriterion", "groupby_alias", "orderby_alias")


import re as _re

_ADDR = _re.compile(r" at 0x[0-9a-f]+")


def obs(o, flags=False, dialects=None):
    """Observation of one object: renderings under the six dialect contexts, inline and parameterised,
    plus str()/alias/tables_/fields_()/is_aggregate.  flags=True adds every context that deviates from a
    dialect default in one boolean flag."""
    res = []
    if not hasattr(o, "get_sql"):
        return ("noget", deepfp_str(o))
    for name in dialects or CTX:
        ctx = CTX[name]
        res.append((name, "i", render(o, ctx)))
        s, vals = render_param(o, ctx)
        res.append((name, "p", s, vrepr(vals)))
        if flags:
            for fl in FLAGS:
                c2 = ctx.copy(**{fl: not getattr(ctx, fl)})
                res.append((name, fl, render(o, c2)))
    try:
        res.append(("str", _ADDR.sub("", str(o))))  # default object str carries the address
    except Exception as e:
        res.append(("str", "!%s" % type(e).__name__))
    d = odict(o) or {}
    res.append(("alias", d.get("alias")))
    if isinstance(o, Node):
        try:
            res.append(("tables", sorted(str(t) + "#" + str(getattr(t, "alias", None)) for t in o.tables_)))
        except Exception as e:
            res.append(("tables", "!%s" % type(e).__name__))
        try:
            res.append(("fields", sorted(render(f, CTX["generic"].copy(with_namespace=True, with_alias=True))
                                         for f in o.fields_())))
        except Exception as e:
            res.append(("fields", "!%s" % type(e).__name__))
        try:
            res.append(("agg", o.is_aggregate))
        except Exception as e:
            res.append(("agg", "!%s" % type(e).__name__))
    if hasattr(o, "get_parameterized_sql"):
        try:
            s, v = o.get_parameterized_sql()
            res.append(("gps", s, vrepr(v)))
        except Exception as e:
            res.append(("gps", "!%s" % type(e).__name__))
    return tuple(res)


def obs_diff(a, b):
    """first differing component of two observations (for messages)."""
    if len(a) != len(b):
        return ("len", len(a), len(b))
    for x, y in zip(a, b):
        if x != y:
            return (x, y)
    return None
