"""Reference tokenizers, one per dialect, written from each dialect's lexical grammar (DESIGN §1.5).
Independent of the library: nothing is imported from pypika_tortoise.

Token = (kind, text, value, start, end)
  kind: ID   quoted identifier              value = decoded name
        WORD bare word (keyword / bare identifier / function name)   value = text.upper()
        STR  string literal                 value = decoded python str
        NUM  numeric literal                value = int | float | Decimal-as-str
        PAR  placeholder                    value = index (pg: n; others: None)
        OP   operator / punctuation         value = text
        COM  comment                        value = text
An unterminated string / identifier / comment or a character that starts no token raises LexError.
"""
from __future__ import annotations

import re


class LexError(Exception):
    pass


class Tok(tuple):
    __slots__ = ()

    def __new__(cls, kind, text, value, start, end):
        return tuple.__new__(cls, (kind, text, value, start, end))

    kind = property(lambda s: s[0])
    text = property(lambda s: s[1])
    value = property(lambda s: s[2])
    start = property(lambda s: s[3])
    end = property(lambda s: s[4])

    def __repr__(self):
        return "%s(%r)" % (self[0], self[1])


DIALECTS = ("generic", "sqlite", "mysql", "postgresql", "mssql", "oracle")

CONF = {
    # id_quotes: opening char -> closing char ; doubled closing char is the escape (none for oracle)
    "generic": dict(id_quotes={'"': '"'}, backslash=False, hash_comment=False, placeholder="?", dollar=False),
    "sqlite": dict(id_quotes={'"': '"'}, backslash=False, hash_comment=False, placeholder="?", dollar=False),
    "mysql": dict(id_quotes={"`": "`"}, backslash=True, hash_comment=True, placeholder="%s", dollar=False),
    "postgresql": dict(id_quotes={'"': '"'}, backslash=False, hash_comment=False, placeholder="$", dollar=True),
    "mssql": dict(id_quotes={'"': '"', "[": "]"}, backslash=False, hash_comment=False, placeholder="?", dollar=False),
    "oracle": dict(id_quotes={'"': '"'}, backslash=False, hash_comment=False, placeholder="?", dollar=False,
                   no_id_escape=True),
}

# longest match first
OPS = ["->>", "#>>", "<=>", "->", "#>", "@>", "<@", "?&", "?|", "<>", "<=", ">=", "!=", "||", "::", ":=",
       "(", ")", ",", ".", ";", "+", "-", "*", "/", "%", "=", "<", ">", "&", "|", "^", "~", "[", "]", "{", "}", ":", "@",
       "#", "?", "!"]

_NUM = re.compile(r"(?:\d+\.\d*|\.\d+|\d+)(?:[eE][+-]?\d+)?")
_WORD = re.compile(r"[A-Za-z_\u0080-\U0010ffff][A-Za-z0-9_$\u0080-\U0010ffff]*")

MYSQL_ESC = {"0": "\0", "'": "'", '"': '"', "b": "\b", "n": "\n", "r": "\r", "t": "\t", "Z": "\x1a", "\\": "\\",
             "%": "\\%", "_": "\\_"}


def lex(sql: str, dialect: str, keep_comments=True):
    c = CONF[dialect]
    i, n = 0, len(sql)
    out = []
    while i < n:
        ch = sql[i]
        if ch in " \t\r\n\f\v":
            i += 1
            continue
        two = sql[i:i + 2]
        # comments
        if two == "--":
            # MySQL needs whitespace/control after '--' for a comment; without it "--" is two minus signs.
            is_comment = dialect != "mysql" or i + 2 >= n or sql[i + 2] in " \t\r\n\f\v\x00"
            if is_comment:
                j = sql.find("\n", i)
                j = n if j < 0 else j
                out.append(Tok("COM", sql[i:j], sql[i:j], i, j))
                i = j
                continue
        if two == "/*":
            if dialect == "postgresql":  # nested comments
                depth, j = 1, i + 2
                while j < n and depth:
                    if sql[j:j + 2] == "/*":
                        depth += 1
                        j += 2
                    elif sql[j:j + 2] == "*/":
                        depth -= 1
                        j += 2
                    else:
                        j += 1
                if depth:
                    raise LexError("unterminated comment at %d" % i)
            else:
                j = sql.find("*/", i + 2)
                if j < 0:
                    raise LexError("unterminated comment at %d" % i)
                j += 2
            out.append(Tok("COM", sql[i:j], sql[i:j], i, j))
            i = j
            continue
        if ch == "#" and c["hash_comment"]:
            j = sql.find("\n", i)
            j = n if j < 0 else j
            out.append(Tok("COM", sql[i:j], sql[i:j], i, j))
            i = j
            continue
        # string literal
        if ch == "'":
            j = i + 1
            buf = []
            while True:
                if j >= n:
                    raise LexError("unterminated string at %d" % i)
                x = sql[j]
                if x == "\\" and c["backslash"]:
                    if j + 1 >= n:
                        raise LexError("unterminated string (dangling backslash) at %d" % i)
                    y = sql[j + 1]
                    buf.append(MYSQL_ESC.get(y, y))
                    j += 2
                    continue
                if x == "'":
                    if j + 1 < n and sql[j + 1] == "'":
                        buf.append("'")
                        j += 2
                        continue
                    j += 1
                    break
                buf.append(x)
                j += 1
            out.append(Tok("STR", sql[i:j], "".join(buf), i, j))
            i = j
            continue
        # MySQL: "..." is a string literal (ANSI_QUOTES off)
        if ch == '"' and dialect == "mysql":
            j = i + 1
            buf = []
            while True:
                if j >= n:
                    raise LexError("unterminated string at %d" % i)
                x = sql[j]
                if x == "\\":
                    if j + 1 >= n:
                        raise LexError("unterminated string at %d" % i)
                    buf.append(MYSQL_ESC.get(sql[j + 1], sql[j + 1]))
                    j += 2
                    continue
                if x == '"':
                    if j + 1 < n and sql[j + 1] == '"':
                        buf.append('"')
                        j += 2
                        continue
                    j += 1
                    break
                buf.append(x)
                j += 1
            out.append(Tok("STR", sql[i:j], "".join(buf), i, j))
            i = j
            continue
        # quoted identifier
        if ch in c["id_quotes"] and not (ch == "[" and _looks_like_array(sql, i, out)):
            close = c["id_quotes"][ch]
            j = i + 1
            buf = []
            while True:
                if j >= n:
                    raise LexError("unterminated identifier at %d" % i)
                x = sql[j]
                if x == close:
                    if not c.get("no_id_escape") and j + 1 < n and sql[j + 1] == close:
                        buf.append(close)
                        j += 2
                        continue
                    j += 1
                    break
                if x == "\0":
                    raise LexError("NUL in identifier at %d" % j)
                buf.append(x)
                j += 1
            if not buf:
                raise LexError("empty identifier at %d" % i)
            out.append(Tok("ID", sql[i:j], "".join(buf), i, j))
            i = j
            continue
        # dollar quoting / placeholders
        if ch == "$" and c["dollar"]:
            m = re.compile(r"\$(\d+)").match(sql, i)
            if m:
                out.append(Tok("PAR", m.group(0), int(m.group(1)), i, m.end()))
                i = m.end()
                continue
            m = re.compile(r"\$([A-Za-z_]\w*)?\$").match(sql, i)
            if m:
                tag = m.group(0)
                j = sql.find(tag, m.end())
                if j < 0:
                    raise LexError("unterminated dollar-quoted string at %d" % i)
                out.append(Tok("STR", sql[i:j + len(tag)], sql[m.end():j], i, j + len(tag)))
                i = j + len(tag)
                continue
            raise LexError("stray $ at %d" % i)
        if c["placeholder"] == "%s" and two == "%s":
            out.append(Tok("PAR", "%s", None, i, i + 2))
            i += 2
            continue
        if c["placeholder"] == "?" and ch == "?":
            m = re.compile(r"\?\d*").match(sql, i)
            out.append(Tok("PAR", m.group(0), None, i, m.end()))
            i = m.end()
            continue
        if ch.isdigit() or (ch == "." and i + 1 < n and sql[i + 1].isdigit()):
            m = _NUM.match(sql, i)
            t = m.group(0)
            v = int(t) if t.isdigit() else float(t)
            # a number directly followed by a word character is not a number token
            if m.end() < n and _WORD.match(sql, m.end()):
                raise LexError("malformed number at %d" % i)
            out.append(Tok("NUM", t, v, i, m.end()))
            i = m.end()
            continue
        m = _WORD.match(sql, i)
        if m:
            out.append(Tok("WORD", m.group(0), m.group(0).upper(), i, m.end()))
            i = m.end()
            continue
        for op in OPS:
            if sql.startswith(op, i):
                out.append(Tok("OP", op, op, i, i + len(op)))
                i += len(op)
                break
        else:
            raise LexError("unexpected character %r at %d" % (ch, i))
    if not keep_comments:
        out = [t for t in out if t.kind != "COM"]
    return out


def _looks_like_array(sql, i, out):
    """mssql: '[' opens a bracketed identifier; the library's generic array literal `[1,2]` must not be read as
    one.  '[' is an identifier opener only where an identifier may start (after '.', ',', '(', keyword...) and
    the content up to ']' contains no comma/quote; otherwise it is punctuation."""
    j = sql.find("]", i)
    if j < 0:
        return True
    body = sql[i + 1:j]
    return ("," in body) or ("'" in body) or ('"' in body) or body.strip() == "" or body.strip().isdigit()


def kinds(tokens):
    return [t.kind for t in tokens]


def strip_ws_eq(a, b, dialect):
    """token-wise equality of two SQL strings (kind, value)."""
    ta, tb = lex(a, dialect), lex(b, dialect)
    return [(t.kind, t.value) for t in ta] == [(t.kind, t.value) for t in tb]
