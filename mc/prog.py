"""Program algebra (DESIGN §1.2): JSON-able descriptions of statements as lists of builder calls, and the
interpreter that drives the PUBLIC API of the library with them (the implementation under test).

PROG  = {"calls": [CALL...], "q": dialect-name | None (inherit the outer dialect class), "opts": {...}}
CALL  = ["from", S] | ["select", [E...]] | ["where", E] | ["prewhere", E] | ["having", E]
      | ["join", how, S, ["on", E] | ["using", [name...]] | ["on_field", [name...]] | ["cross"]]
      | ["groupby", [E...]] | ["orderby", [E...], "asc"|"desc"|None] | ["limit", n] | ["offset", n] | ["slice", a, b]
      | ["distinct"] | ["with", name, PROG] | ["into", S] | ["columns", [name...]] | ["insert", [E...]]
      | ["insert_rows", [[E...]...]] | ["replace", [E...]] | ["on_conflict", [target...]] | ["do_nothing"]
      | ["do_update", col, E|None] | ["update", S] | ["set", col, E] | ["delete"] | [setop, PROG]
      | ["for_update", {...}] | ["force_index", [..]] | ["use_index", [..]] | ["rollup", [E..]] | ["with_totals"]
      | ["returning", [E|str...]] | ["distinct_on", [..]] | ["top", n] | ["fetch_next", n] | ["modifier", s] | ["as", alias]
S     = ["t", name, alias|None, schema|None] | ["q", key, PROG, alias|None] | ["cte", name] | ["sym", key]
E     = expression algebra (see expr())
Symbols: every S gets a key (table: alias or name; subquery: its key) under which fields refer to it: ["f", key, col].
"""
from __future__ import annotations

import json

import datetime as dt
import decimal
import uuid

from mc import fp

from pypika_tortoise import JSON, AliasedQuery, Array, Case, Field, Interval, Table, Tuple
from pypika_tortoise import analytics as AN
from pypika_tortoise import functions as FN
from pypika_tortoise.enums import DatePart, JoinType, Order
from pypika_tortoise.terms import (AggregateFunction, AnalyticFunction, Function, LiteralValue, NullValue, Parameter,
                                   Star, ValueWrapper)

HOW = {"inner": JoinType.inner, "left": JoinType.left, "right": JoinType.right, "cross": JoinType.cross,
       "outer": JoinType.outer, "left_outer": JoinType.left_outer}
ORD = {"asc": Order.asc, "desc": Order.desc, None: None}
SETOPS = ("union", "union_all", "intersect", "except_of", "minus")


import enum as _enum


class Color(_enum.Enum):
    red = "r'd"
    two = 2


def pyval(v):
    """JSON-able value descriptions -> python values: ["date","2020-01-02"], ["dec","1.5"], ["uuid",...], ["dt",...]"""
    if isinstance(v, list) and v and isinstance(v[0], str) and v[0].startswith("$"):
        k = v[0]
        if k == "$date":
            return dt.date.fromisoformat(v[1])
        if k == "$dt":
            return dt.datetime.fromisoformat(v[1])
        if k == "$time":
            return dt.time.fromisoformat(v[1])
        if k == "$dec":
            return decimal.Decimal(v[1])
        if k == "$uuid":
            return uuid.UUID(v[1])
        if k == "$list":
            return [pyval(x) for x in v[1]]
        if k == "$dict":
            return dict(v[1])
        if k == "$enum":
            return Color[v[1]]
    return v


class Env:
    def __init__(self, dialect, parent=None):
        self.dialect = dialect
        self.Q = fp.QCLS[dialect]
        self.sym = {}
        self.parent = parent

    def lookup(self, key):
        e = self
        while e is not None:
            if key in e.sym:
                return e.sym[key]
            e = e.parent
        # unknown symbol: a plain (foreign) table of that name
        return Table(key)

    def child(self, dialect=None):
        return Env(dialect or self.dialect, parent=self)


def source(s, env):
    k = s[0]
    if k == "t":
        name, alias, schema = s[1], s[2] if len(s) > 2 else None, s[3] if len(s) > 3 else None
        if alias:
            # the usual way to get an aliased table: a table that has been in use (hashed, compared) and is renamed
            # afterwards; anything memoised on the un-aliased table must not travel into the renamed copy
            t0 = Table(name, schema=schema)
            {t0: 1}, t0 == t0, str(t0)
            t = t0.as_(alias)
        else:
            t = Table(name, schema=schema)
        env.sym[alias or name] = t
        return t
    if k == "q":
        key, prog, alias = s[1], s[2], s[3] if len(s) > 3 else None
        q = _build_sub(prog, env)
        if alias:
            q = q.as_(alias)
        env.sym[key] = q
        return q
    if k == "cte":
        a = AliasedQuery(s[1])
        env.sym[s[1]] = a
        return a
    if k == "sym":
        return env.lookup(s[1])
    raise ValueError(s)


_SHARE = None  # dict while a program is built in "shared" mode (see build(share=True))


def expr(e, env):
    """In shared mode every structurally equal sub-expression of one statement level (and every structurally equal subquery
    program) is built once and the *same object* is handed to every place that uses it - what a user does who keeps a column,
    a criterion or a subquery in a variable.  The statement must not depend on that."""
    if _SHARE is None or not isinstance(e, list) or e[0] == "raw":
        return _expr(e, env)
    key = (json.dumps(e, sort_keys=True, default=str), id(env))
    if key not in _SHARE:
        _SHARE[key] = _expr(e, env)
    return _SHARE[key]


def _expr(e, env):
    X = lambda x: expr(x, env)  # noqa
    O = lambda x: operand(x, env)  # noqa
    k = e[0]
    if k == "f":
        return env.lookup(e[1]).field(e[2])
    if k == "col":
        return Field(e[1])
    if k == "lit":
        return ValueWrapper(pyval(e[1]))
    if k == "raw":  # python constant passed as-is (the library decides how to wrap it)
        return pyval(e[1])
    if k == "valnp":
        return ValueWrapper(pyval(e[1]), allow_parametrize=False)
    if k == "null":
        return NullValue()
    if k == "param":
        return Parameter(e[1])
    if k == "literal":
        return LiteralValue(e[1])
    if k == "star":
        return Star() if e[1] is None else env.lookup(e[1]).star
    if k == "as":
        if len(e) > 3 and e[3] == "kw":
            return _alias_by_keyword(e[1], e[2], X, O)
        return X(e[1]).as_(e[2])
    if k == "neg":
        return -X(e[1])
    if k == "not":
        return ~X(e[1])
    if k == "arith":
        l, r = X(e[2]), O(e[3])
        return {"+": lambda: l + r, "-": lambda: l - r, "*": lambda: l * r, "/": lambda: l / r}[e[1]]()
    if k == "cmp":
        l, r = X(e[2]), O(e[3])
        return {"=": lambda: l == r, "<>": lambda: l != r, "<": lambda: l < r, "<=": lambda: l <= r,
                ">": lambda: l > r, ">=": lambda: l >= r}[e[1]]()
    if k == "like":
        return X(e[1]).like(e[2])
    if k == "in":
        t = X(e[1])
        items = [O(x) for x in e[2]]
        return t.notin(items) if len(e) > 3 and e[3] else t.isin(items)
    if k == "insub":
        t = X(e[1])
        q = _build_sub(e[2], env)
        r = t.isin(q)
        if len(e) > 3 and e[3] == "notin":
            r = t.notin(q)
        elif len(e) > 3 and e[3] == "not":
            r = ~t.isin(q)
        return r
    if k == "subq":
        return _build_sub(e[1], env)
    if k == "between":
        return X(e[1]).between(O(e[2]), O(e[3]))
    if k == "isnull":
        return X(e[1]).isnull()
    if k == "notnull":
        return X(e[1]).notnull()
    if k == "logic":
        l, r = X(e[2]), X(e[3])
        return {"AND": lambda: l & r, "OR": lambda: l | r, "XOR": lambda: l ^ r}[e[1]]()
    if k == "case":
        c = Case()
        for w, t in e[1]:
            c = c.when(X(w), O(t))
        if e[2] is not None:
            c = c.else_(O(e[2]))
        return c
    if k == "func":
        return Function(e[1], *[O(a) for a in e[2]])
    if k == "agg":
        f = {"SUM": FN.Sum, "COUNT": FN.Count, "MIN": FN.Min, "MAX": FN.Max, "AVG": FN.Avg}[e[1]]
        a = X(e[2]) if e[2] != "*" else "*"
        r = f(a)
        if len(e) > 3 and e[3] == "distinct":
            r = r.distinct()
        return r
    if k == "aggf":  # aggregate with FILTER
        return AggregateFunction(e[1], X(e[2])).filter(X(e[3]))
    if k == "win":
        cls = {"ROW_NUMBER": AN.RowNumber, "RANK": AN.Rank, "SUM": AN.Sum, "MAX": AN.Max, "COUNT": AN.Count}[e[1]]
        w = cls(*[X(a) for a in e[2]])
        if e[3]:
            w = w.over(*[X(p) for p in e[3]])
        else:
            w = w.over()
        for o in e[4]:
            w = w.orderby(X(o[0]), order=ORD[o[1]])
        return w
    if k == "tuple":
        return Tuple(*[O(x) for x in e[1]])
    if k == "array":
        return Array(*[O(x) for x in e[1]])
    if k == "json":
        return JSON(pyval(e[1]))
    if k == "interval":
        kw = dict(e[1])
        if "dialect" in kw:  # the (optional, rarely used) dialect keyword of the constructor, given by enum member name
            from pypika_tortoise.enums import Dialects
            kw["dialect"] = Dialects[kw["dialect"]]
        return Interval(**kw)
    if k == "cast":
        return FN.Cast(X(e[1]), e[2])
    if k == "extract":
        return FN.Extract(getattr(DatePart, e[1]), X(e[2]))
    if k == "coalesce":
        return FN.Coalesce(*[O(a) for a in e[1]])
    if k == "bitand":
        return X(e[1]).bitwiseand(e[2])
    if k == "jsonop":
        return getattr(X(e[2]), e[1])(pyval(e[3]))
    raise ValueError("expr: %r" % (e,))


def _alias_by_keyword(e, alias, X, O):
    """the alias handed to the constructor (alias=...) instead of .as_(): for the term kinds whose constructor takes one"""
    k = e[0]
    if k == "func":
        return Function(e[1], *[O(a) for a in e[2]], alias=alias)
    if k == "agg" and not (len(e) > 3 and e[3] == "distinct"):
        f = {"SUM": FN.Sum, "COUNT": FN.Count, "MIN": FN.Min, "MAX": FN.Max, "AVG": FN.Avg}[e[1]]
        return f(X(e[2]) if e[2] != "*" else "*", alias=alias)
    if k == "win":
        cls = {"ROW_NUMBER": AN.RowNumber, "RANK": AN.Rank, "SUM": AN.Sum, "MAX": AN.Max, "COUNT": AN.Count}[e[1]]
        w = cls(*[X(a) for a in e[2]], alias=alias)
        w = w.over(*[X(p) for p in e[3]]) if e[3] else w.over()
        for o in e[4]:
            w = w.orderby(X(o[0]), order=ORD[o[1]])
        return w
    if k == "coalesce":
        return FN.Coalesce(*[O(a) for a in e[1]], alias=alias)
    return X(e).as_(alias)


def operand(e, env):
    """right-hand operands: ["raw", v] / ["null"] are handed to the library as python constants"""
    if e[0] == "raw":
        return pyval(e[1])
    if e[0] == "null":
        return None
    return expr(e, env)


def seltarget(e, env):
    """select()/groupby()/orderby() also accept plain strings (column names) and python constants"""
    if e[0] == "name":
        return e[1]
    if e[0] == "raw":
        return pyval(e[1])
    return expr(e, env)


def _build_sub(prog, env):
    if _SHARE is None:
        return build(prog, env.child(prog.get("q")))
    key = ("sub", json.dumps(prog, sort_keys=True, default=str), id(env))
    if key not in _SHARE:
        _SHARE[key] = build(prog, env.child(prog.get("q")))
    return _SHARE[key]


def build(prog, env=None, dialect="generic", share=False):
    global _SHARE
    if share and _SHARE is None:
        _SHARE = {}
        try:
            return build(prog, env, dialect)
        finally:
            _SHARE = None
    if env is None:
        env = Env(prog.get("q") or dialect)
    Q = env.Q
    opts = prog.get("opts") or {}
    calls = prog["calls"]
    if calls and calls[0][0] == "with" and not opts and hasattr(Q, "with_"):
        # a statement that starts with its CTE is started through the query class's own with_() (a classmethod)
        c = calls[0]
        sub = _build_sub(c[2], env)
        env.sym[c[1]] = AliasedQuery(c[1])
        q = Q.with_(sub, c[1])
        calls = calls[1:]
    else:
        q = Q._builder(**opts)
    for c in calls:
        q = call(q, c, env)
    return q


def call(q, c, env):
    k = c[0]
    X = lambda x: expr(x, env)  # noqa
    if k == "from":
        return q.from_(source(c[1], env))
    if k == "select":
        return q.select(*[seltarget(e, env) for e in c[1]])
    if k == "where":
        return q.where(X(c[1]))
    if k == "prewhere":
        return q.prewhere(X(c[1]))
    if k == "having":
        return q.having(X(c[1]))
    if k == "join":
        how, s, spec = c[1], c[2], c[3]
        j = q.join(source(s, env), HOW[how])
        if spec[0] == "on":
            return j.on(X(spec[1]))
        if spec[0] == "using":
            return j.using(*spec[1])
        if spec[0] == "on_field":
            return j.on_field(*spec[1])
        return j.cross()
    if k == "groupby":
        return q.groupby(*[seltarget(e, env) for e in c[1]])
    if k == "orderby":
        return q.orderby(*[seltarget(e, env) for e in c[1]], order=ORD[c[2] if len(c) > 2 else None])
    if k == "limit":  # (a Term instead of an int: ["limit", E])
        return q.limit(expr(c[1], env) if isinstance(c[1], list) else c[1])
    if k == "offset":
        return q.offset(expr(c[1], env) if isinstance(c[1], list) else c[1])
    if k == "slice":
        return q[c[1]:c[2]]
    if k == "distinct":
        return q.distinct()
    if k == "with":
        sub = _build_sub(c[2], env)
        env.sym[c[1]] = AliasedQuery(c[1])
        return q.with_(sub, c[1])
    if k == "into":
        return q.into(source(c[1], env))
    if k == "columns":
        return q.columns(*c[1])
    if k == "insert":
        return q.insert(*[operand(e, env) for e in c[1]])
    if k == "insert_rows":
        rowtype = list if (len(c) > 2 and c[2] == "list") else tuple  # a row may be given as a tuple or as a list
        return q.insert(*[rowtype(operand(e, env) for e in row) for row in c[1]])
    if k == "replace":
        return q.replace(*[operand(e, env) for e in c[1]])
    if k == "on_conflict":
        return q.on_conflict(*[(t if isinstance(t, str) else X(t)) for t in c[1]])
    if k == "do_nothing":
        return q.do_nothing()
    if k == "do_update":
        return q.do_update(c[1] if isinstance(c[1], str) else X(c[1]), None if c[2] is None else operand(c[2], env))
    if k == "update":
        return q.update(source(c[1], env))
    if k == "set":
        return q.set(c[1] if isinstance(c[1], str) else X(c[1]), operand(c[2], env))
    if k == "delete":
        return q.delete()
    if k in SETOPS:
        other = _build_sub(c[1], env)
        return getattr(q, k)(other)
    if k == "for_update":
        return q.for_update(**{kk: (tuple(v) if kk == "of" else v) for kk, v in c[1].items()})
    if k == "force_index":
        return q.force_index(*c[1])
    if k == "use_index":
        return q.use_index(*c[1])
    if k == "rollup":
        return q.rollup(*[X(e) for e in c[1]], **(c[2] if len(c) > 2 else {}))
    if k == "with_totals":
        return q.with_totals()
    if k == "returning":
        return q.returning(*[seltarget(e, env) for e in c[1]])
    if k == "distinct_on":
        return q.distinct_on(*[seltarget(e, env) for e in c[1]])
    if k == "top":
        return q.top(c[1])
    if k == "fetch_next":
        return q.fetch_next(c[1])
    if k == "modifier":
        return q.modifier(c[1])
    if k == "as":
        return q.as_(c[1])
    raise ValueError("call: %r" % (c,))


def render(o, dialect, param=False, **flags):
    """top-level rendering of a built statement by its own dialect builder: (sql, values|None).
    flags: non-default SqlContext fields (e.g. as_keyword=True) - then the statement is rendered with the dialect's context
    carrying them."""
    if flags:
        from pypika_tortoise.terms import Parameterizer

        pz = Parameterizer() if param else None
        ctx = fp.CTX[dialect].copy(**flags)
        if pz is not None:
            ctx = ctx.copy(parameterizer=pz)
        return o.get_sql(ctx), (pz.values if pz is not None else None)
    if param:
        if callable(getattr(type(o), "get_parameterized_sql", None)):
            return o.get_parameterized_sql()
        from pypika_tortoise.terms import Parameterizer

        pz = Parameterizer()
        return o.get_sql(fp.CTX[dialect].copy(parameterizer=pz)), pz.values
    try:
        return o.get_sql(), None
    except TypeError:
        return o.get_sql(fp.CTX[dialect]), None


def shared_objects_diff(p, dialect):
    """-> None, or a description of how the statement changes when every repeated sub-expression / subquery of the program is one
    shared object instead of separately built equal objects (inline and parameterised renderings, values included)"""
    def obs(share):
        try:
            o = build(p, dialect=dialect, share=share)
        except Exception as e:
            return ("!build:" + type(e).__name__,)
        out = []
        for param in (False, True):
            try:
                sql, vals = render(o, dialect, param=param)
                out.append((sql, fp.vrepr(vals) if vals is not None else None))
            except Exception as e:
                out.append(("!render:" + type(e).__name__, None))
        # a second rendering of the same object (anything memoised on shared operands during the first one shows now)
        try:
            sql, vals = render(o, dialect, param=True)
            out.append((sql, fp.vrepr(vals) if vals is not None else None))
        except Exception as e:
            out.append(("!render:" + type(e).__name__, None))
        return tuple(out)

    a, b = obs(False), obs(True)
    if a != b:
        i = next(i for i, (x, y) in enumerate(zip(a, b)) if x != y) if len(a) == len(b) else 0
        return {"separate_objects": a[i] if i < len(a) else a, "shared_objects": b[i] if i < len(b) else b}
    return None
