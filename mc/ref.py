"""Reference transcription (DESIGN §1.2 to_ref): program algebra -> plain, fully parenthesised, fully qualified
SQLite SQL.  Written from the meaning of the builder calls, independent of the library (imports nothing from it).
"""
from __future__ import annotations


class RefError(Exception):
    pass


def q(name):
    return '"' + str(name).replace('"', '""') + '"'


def lit(v):
    if isinstance(v, list) and v and isinstance(v[0], str) and v[0].startswith("$"):
        raise RefError("value kind outside the SQLite core: %r" % (v,))
    if v is None:
        return "NULL"
    if v is True:
        return "1"
    if v is False:
        return "0"
    if isinstance(v, (int, float)):
        return "(%r)" % v if v < 0 else repr(v)
    if isinstance(v, str):
        return "'" + v.replace("'", "''") + "'"
    raise RefError("literal %r" % (v,))


class Scope:
    """names of the row sources visible to an expression: key -> exposed name"""

    def __init__(self, parent=None):
        self.names = {}
        self.parent = parent
        self.default = None

    def lookup(self, key):
        s = self
        while s is not None:
            if key in s.names:
                return s.names[key]
            s = s.parent
        return key  # foreign / outer table referenced by its own name


def expr(e, sc, unqual=False):
    X = lambda x: expr(x, sc, unqual)  # noqa
    k = e[0]
    if k == "f":
        if unqual:
            return q(e[2])
        return "%s.%s" % (q(sc.lookup(e[1])), q(e[2]))
    if k == "col":
        if sc.default is not None and not unqual:
            return "%s.%s" % (q(sc.default), q(e[1]))
        return q(e[1])
    if k in ("lit", "raw", "valnp"):
        return lit(e[1])
    if k == "null":
        return "NULL"
    if k == "star":
        return "*" if e[1] is None else "%s.*" % q(sc.lookup(e[1]))
    if k == "as":
        return X(e[1])  # the alias is added by the select list only
    if k == "neg":
        return "(-(%s))" % X(e[1])
    if k in ("not", "negate"):
        return "(NOT (%s))" % X(e[1])
    if k in ("arith", "rarith"):
        return "((%s) %s (%s))" % (X(e[2]), e[1], X(e[3]))
    if k == "cmp":
        return "((%s) %s (%s))" % (X(e[2]), e[1], X(e[3]))
    if k == "like":
        return "((%s) LIKE %s)" % (X(e[1]), lit(e[2]))
    if k == "in":
        neg = len(e) > 3 and e[3]
        return "((%s) %sIN (%s))" % (X(e[1]), "NOT " if neg else "", ", ".join("(%s)" % X(i) for i in e[2]))
    if k == "insub":
        mode = e[3] if len(e) > 3 else None
        inner = stmt(e[2], Scope(sc))
        if mode == "notin":
            return "((%s) NOT IN (%s))" % (X(e[1]), inner)
        if mode == "not":
            return "(NOT ((%s) IN (%s)))" % (X(e[1]), inner)
        return "((%s) IN (%s))" % (X(e[1]), inner)
    if k == "subq":
        return "(%s)" % stmt(e[1], Scope(sc))
    if k == "between":
        return "((%s) BETWEEN (%s) AND (%s))" % (X(e[1]), X(e[2]), X(e[3]))
    if k == "isnull":
        return "((%s) IS NULL)" % X(e[1])
    if k == "notnull":
        return "(NOT ((%s) IS NULL))" % X(e[1])
    if k == "logic":
        if e[1] == "XOR":
            raise RefError("XOR is not SQLite")
        return "((%s) %s (%s))" % (X(e[2]), e[1], X(e[3]))
    if k == "case":
        s = "(CASE " + " ".join("WHEN (%s) THEN (%s)" % (X(w), X(t)) for w, t in e[1])
        if e[2] is not None:
            s += " ELSE (%s)" % X(e[2])
        return s + " END)"
    if k == "func":
        return "%s(%s)" % (e[1], ", ".join(X(a) for a in e[2]))
    if k == "coalesce":
        return "COALESCE(%s)" % ", ".join(X(a) for a in e[1])
    if k == "agg":
        a = "*" if e[2] == "*" else X(e[2])
        d = "DISTINCT " if len(e) > 3 and e[3] == "distinct" else ""
        return "%s(%s%s)" % (e[1], d, a)
    if k == "aggf":
        return "%s(%s) FILTER (WHERE %s)" % (e[1], X(e[2]), X(e[3]))
    if k == "win":
        over = []
        if e[3]:
            over.append("PARTITION BY " + ", ".join(X(p) for p in e[3]))
        if e[4]:
            over.append("ORDER BY " + ", ".join(X(o[0]) + (" " + o[1].upper() if o[1] else "") for o in e[4]))
        return "%s(%s) OVER (%s)" % (e[1], ", ".join(X(a) for a in e[2]), " ".join(over))
    if k == "tuple":
        return "(%s)" % ", ".join(X(x) for x in e[1])
    if k == "bitand":
        return "((%s) & %d)" % (X(e[1]), e[2])
    if k == "pow" or k == "mod":
        raise RefError("POW/MOD are not in the SQLite core build")
    raise RefError("expression kind %r outside the SQLite core" % k)


def source(s, sc):
    k = s[0]
    if k == "t":
        name, alias = s[1], s[2] if len(s) > 2 else None
        sc.names[alias or name] = alias or name
        return q(name) + (" AS " + q(alias) if alias else "")
    if k == "q":
        key, p, alias = s[1], s[2], s[3] if len(s) > 3 else None
        inner = stmt(p, Scope(sc))
        sc.names[key] = alias or key
        return "(%s) AS %s" % (inner, q(alias or key))
    if k == "cte":
        sc.names[s[1]] = s[1]
        return q(s[1])
    raise RefError("source %r" % (s,))


SETOPS = {"union": "UNION", "union_all": "UNION ALL", "intersect": "INTERSECT", "except_of": "EXCEPT"}


def stmt(p, sc=None):
    sc = sc or Scope()
    calls = p["calls"]
    # a set operation: everything before the first set-op call is the base select
    idx = next((i for i, c in enumerate(calls) if c[0] in SETOPS or c[0] == "minus"), None)
    if idx is not None:
        base = select_like({"calls": calls[:idx]}, sc, compound_part=True)
        rest = calls[idx:]
        out = base
        tail_order, tail_lim, tail_off = [], None, None
        for c in rest:
            if c[0] in SETOPS:
                out += " %s %s" % (SETOPS[c[0]], select_like(c[1], Scope(sc.parent), compound_part=True))
            elif c[0] == "orderby":
                for e in c[1]:
                    tail_order.append((e, c[2] if len(c) > 2 else None))
            elif c[0] == "limit":
                tail_lim = c[1]
            elif c[0] == "offset":
                tail_off = c[1]
            elif c[0] == "minus":
                raise RefError("MINUS is not SQLite")
            else:
                raise RefError("call %r after a set operation" % (c,))
        if tail_order:
            # ORDER BY of a compound select names result columns
            out += " ORDER BY " + ", ".join((q(e[2]) if e[0] == "as" else expr(e, sc, unqual=True)) + (" " + d.upper() if d else "")
                                            for e, d in tail_order)
        out += limit_sql(tail_lim, tail_off)
        return out
    head = calls[0][0] if calls else None
    kinds = [c[0] for c in calls]
    if "into" in kinds:
        return insert(p, sc)
    if "update" in kinds:
        return update(p, sc)
    if "delete" in kinds:
        return delete(p, sc)
    return select_like(p, sc)


def limit_sql(lim, off):
    if lim is None and off is None:
        return ""
    if lim is None:
        return " LIMIT -1 OFFSET %d" % off
    return " LIMIT %d" % lim + (" OFFSET %d" % off if off is not None else "")


def select_like(p, sc, compound_part=False):
    frm, joins, sel, wh, grp, hav, order, withs = [], [], [], [], [], [], [], []
    lim = off = None
    distinct = False
    for c in p["calls"]:
        k = c[0]
        if k == "from":
            frm.append(source(c[1], sc))
        elif k == "join":
            how, s, spec = c[1], c[2], c[3]
            src = source(s, sc)
            kw = {"inner": "INNER JOIN", "left": "LEFT JOIN", "cross": "CROSS JOIN"}[how if spec[0] != "cross" else "cross"]
            joins.append((kw, src, spec))
        elif k == "select":
            sel += c[1]
        elif k == "where":
            wh.append(c[1])
        elif k == "groupby":
            grp += c[1]
        elif k == "having":
            hav.append(c[1])
        elif k == "orderby":
            for e in c[1]:
                order.append((e, c[2] if len(c) > 2 else None))
        elif k == "limit":
            lim = c[1]
        elif k == "offset":
            off = c[1]
        elif k == "slice":
            if c[1] is not None:
                off = c[1]
            if c[2] is not None:
                lim = c[2]
        elif k == "distinct":
            distinct = True
        elif k == "with":
            withs.append((c[1], stmt(c[2], Scope())))
            sc.names[c[1]] = c[1]
        else:
            raise RefError("call %r outside the SQLite core" % (c,))
    n_sources = len(frm) + len(joins)
    if n_sources == 1 and p["calls"]:
        first = next(c for c in p["calls"] if c[0] == "from")[1]
        sc.default = (first[2] if len(first) > 2 and first[2] else first[1]) if first[0] == "t" else (first[3] if len(first) > 3 and first[3] else first[1])
    out = ""
    if withs:
        out += "WITH " + ", ".join("%s AS (%s)" % (q(n), s) for n, s in withs) + " "
    items = []
    for e in sel:
        if e[0] == "as":
            items.append("%s AS %s" % (expr(e[1], sc), q(e[2])))
        elif e[0] == "name":
            items.append(expr(["col", e[1]], sc) if e[1] != "*" else "*")
        else:
            items.append(expr(e, sc))
    out += "SELECT " + ("DISTINCT " if distinct else "") + ", ".join(items)
    if frm:
        out += " FROM " + ", ".join(frm)
    for kw, src, spec in joins:
        out += " %s %s" % (kw, src)
        if spec[0] == "on":
            out += " ON %s" % expr(spec[1], sc)
        elif spec[0] == "using":
            out += " USING (%s)" % ", ".join(q(n) for n in spec[1])
    if wh:
        out += " WHERE " + " AND ".join(expr(w, sc) for w in wh)
    if grp:
        out += " GROUP BY " + ", ".join(expr(g, sc) for g in grp)
    if hav:
        out += " HAVING " + " AND ".join(expr(h, sc) for h in hav)
    if order:
        out += " ORDER BY " + ", ".join(expr(e, sc) + (" " + d.upper() if d else "") for e, d in order)
    out += limit_sql(lim, off)
    return out


def insert(p, sc):
    table = cols = None
    rows, conflict_targets, updates = [], None, []
    nothing = False
    cwhere, uwhere = [], []
    sel_calls = []
    for c in p["calls"]:
        k = c[0]
        if k == "into":
            table = c[1]
        elif k == "columns":
            cols = c[1]
        elif k == "insert":
            rows.append(c[1])
        elif k == "insert_rows":
            rows += c[1]
        elif k == "on_conflict":
            conflict_targets = (conflict_targets or []) + list(c[1])
        elif k == "do_nothing":
            nothing = True
        elif k == "do_update":
            updates.append((c[1], c[2]))
        elif k == "where" and conflict_targets is not None:
            (uwhere if updates else cwhere).append(c[1])
        elif k in ("from", "select", "where", "join", "orderby", "limit", "groupby", "having", "distinct"):
            sel_calls.append(c)
        else:
            raise RefError("call %r in INSERT" % (c,))
    tname = table[2] if len(table) > 2 and table[2] else table[1]
    sc.names[tname] = tname
    out = "INSERT INTO %s" % q(table[1])
    if cols:
        out += " (%s)" % ", ".join(q(c) for c in cols)
    if rows:
        sc.default = None
        out += " VALUES " + ", ".join("(%s)" % ", ".join(expr(v, sc) for v in r) for r in rows)
    else:
        out += " " + select_like({"calls": sel_calls}, Scope(sc))
    if conflict_targets is not None and (nothing or updates or conflict_targets):
        out += " ON CONFLICT"
        if conflict_targets:
            out += " (%s)" % ", ".join(q(t) for t in conflict_targets)
        if cwhere:
            out += " WHERE " + " AND ".join(expr(w, sc) for w in cwhere)
        if nothing:
            out += " DO NOTHING"
        elif updates:
            sets = []
            for col, val in updates:
                sets.append("%s = %s" % (q(col), ("excluded.%s" % q(col)) if val is None else expr(val, sc)))
            out += " DO UPDATE SET " + ", ".join(sets)
            if uwhere:
                out += " WHERE " + " AND ".join(expr(w, sc) for w in uwhere)
    return out


def update(p, sc):
    table = None
    sets, wh = [], []
    for c in p["calls"]:
        k = c[0]
        if k == "update":
            table = c[1]
        elif k == "set":
            col = c[1] if isinstance(c[1], str) else c[1][-1]
            sets.append((col, c[2]))
        elif k == "where":
            wh.append(c[1])
        else:
            raise RefError("call %r in UPDATE" % (c,))
    sc.names[table[1]] = table[1]
    sc.default = table[1]
    out = "UPDATE %s SET %s" % (q(table[1]), ", ".join("%s = %s" % (q(c), expr(v, sc)) for c, v in sets))
    if wh:
        out += " WHERE " + " AND ".join(expr(w, sc) for w in wh)
    return out


def delete(p, sc):
    table = None
    wh = []
    for c in p["calls"]:
        k = c[0]
        if k == "from":
            table = c[1]
        elif k == "delete":
            pass
        elif k == "where":
            wh.append(c[1])
        else:
            raise RefError("call %r in DELETE" % (c,))
    sc.names[table[1]] = table[1]
    sc.default = table[1]
    out = "DELETE FROM %s" % q(table[1])
    if wh:
        out += " WHERE " + " AND ".join(expr(w, sc) for w in wh)
    return out
