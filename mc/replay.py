"""Replay one recorded case without the explorer: /venv/bin/python -m mc.replay <replay.json>
exit 1 (and the violation printed) if the case still fails, 0 if it no longer does."""
import importlib
import json
import os
import sys


def main():
    path = sys.argv[1]
    if os.environ.get("PYTHONHASHSEED") != "0":
        env = dict(os.environ, PYTHONHASHSEED="0", PYTHONDONTWRITEBYTECODE="1")
        os.execve(sys.executable, [sys.executable, "-m", "mc.replay"] + sys.argv[1:], env)
    with open(path) as f:
        rec = json.load(f)
    from mc import common

    common.bind_repo()
    mod = importlib.import_module("mc.checks." + rec["property"].lower())
    case = rec["case"]
    if hasattr(mod, "decode_case"):
        case = mod.decode_case(case)
    r = mod.run_case(case)
    hits = [v for v in r.violations if v["sig"] == rec["signature"]] or r.violations
    if hits:
        for v in hits[:5]:
            print("VIOLATION property=%s replay=%s" % (rec["property"], path))
            print("  signature: %s\n  what: %s" % (v["sig"], v["what"]))
            for k, x in v["detail"].items():
                print("  %s: %s" % (k, str(x)[:400]))
        sys.exit(1)
    print("case no longer violates %s" % rec["property"])
    sys.exit(0)


if __name__ == "__main__":
    main()
