"""Controlled thread scheduler (DESIGN §1.7): real threads, one semaphore baton each, sys.settrace line events
in frames of the library under test are the scheduling points; iterative context bounding (CHESS)."""
from __future__ import annotations

import os
import sys
import threading

from mc.common import REPO

_LIB = os.path.join(os.path.realpath(REPO), "pypika_tortoise") + os.sep


class Divergence(Exception):
    pass


class Execution:
    """One controlled execution of n thread bodies under a choice prefix."""

    def __init__(self, bodies, prefix, opcodes=False):
        self.bodies = bodies
        self.prefix = dict(prefix)  # sparse: position -> non-default choice (default choice is 0)
        self.maxdev = max(self.prefix) if self.prefix else -1
        self.n = len(bodies)
        self.sems = [threading.Semaphore(0) for _ in bodies]
        self.done = [False] * self.n
        self.started = [False] * self.n
        self.results = [None] * self.n
        self.errors = [None] * self.n
        self.points = []  # (running tid, tuple(enabled), chosen)
        self.opcodes = opcodes
        self.main_sem = threading.Semaphore(0)
        self.current = None
        self.diverged = None

    # -- scheduling decision, called by the running thread at every scheduling point
    def _enabled(self):
        return [i for i in range(self.n) if not self.done[i]]

    def _decide(self, tid):
        en = self._enabled()
        # canonical order: running thread first (if still enabled), then ascending ids
        order = ([tid] if tid in en else []) + [i for i in en if i != tid]
        k = len(self.points)
        c = self.prefix.get(k, 0)
        if c >= len(order):
            self.diverged = "choice %d out of range at point %d (enabled %s)" % (c, k, order)
            c = 0
        self.points.append((tid, tuple(order), c))
        return order[c] if order else None

    def point(self, tid):
        nxt = self._decide(tid)
        if nxt is not None and nxt != tid:
            self.current = nxt
            self.sems[nxt].release()
            self.sems[tid].acquire()

    def _tracer_for(self, tid):
        ex = self
        pts = self.points
        devs = self.prefix
        maxdev = self.maxdev
        fast = (tid, None, 0)
        opc = self.opcodes

        def local(frame, event, arg):
            if event == "line" or (opc and event == "opcode"):
                k = len(pts)
                if k > maxdev or k not in devs:
                    pts.append(fast)  # default policy: keep running the current thread (enabled order derived later)
                else:
                    ex.point(tid)
            return local

        def glob(frame, event, arg):
            if event == "call" and frame.f_code.co_filename.startswith(_LIB):
                if opc:
                    frame.f_trace_opcodes = True
                return local
            return None

        return glob

    def _thread(self, tid):
        self.sems[tid].acquire()
        sys.settrace(self._tracer_for(tid))
        try:
            self.results[tid] = self.bodies[tid]()
        except BaseException as e:  # noqa
            self.errors[tid] = "%s: %s" % (type(e).__name__, e)
        finally:
            sys.settrace(None)
            self.done[tid] = True
            # hand over to the next enabled thread (a forced switch, not a preemption)
            en = self._enabled()
            if en:
                nxt = self._decide_finish(tid, en)
                self.current = nxt
                self.sems[nxt].release()
            else:
                self.main_sem.release()

    def _decide_finish(self, tid, en):
        k = len(self.points)
        order = list(en)
        c = self.prefix.get(k, 0)
        if c >= len(order):
            self.diverged = "choice %d out of range at finish point %d" % (c, k)
            c = 0
        self.points.append((-1 - tid, tuple(order), c))
        return order[c]

    def run(self):
        ths = [threading.Thread(target=self._thread, args=(i,), daemon=True) for i in range(self.n)]
        for t in ths:
            t.start()
        # initial choice: which thread starts
        order = list(range(self.n))
        k = len(self.points)
        c = self.prefix.get(k, 0)
        self.points.append((None, tuple(order), c))
        self.current = order[c]
        self.sems[order[c]].release()
        self.main_sem.acquire()
        for t in ths:
            t.join(5)
        if self.diverged:
            raise Divergence(self.diverged)
        return self

    def choices(self):
        return [p[2] for p in self.points]

    def fill_orders(self):
        """fast-path points carry no enabled order; derive it from the finish events."""
        finished = set()
        out = []
        for tid, order, c in self.points:
            if order is None:
                en = [i for i in range(self.n) if i not in finished]
                order = tuple([tid] + [i for i in en if i != tid])
            if tid is not None and tid < 0:
                finished.add(-1 - tid)
            out.append((tid, order, c))
        self.points = out

    def preemptions_before(self, i):
        """number of preemptions among points[0:i] (switch away from a thread that is still enabled)."""
        cnt = 0
        for tid, order, c in self.points[:i]:
            if tid is not None and tid >= 0 and c != 0 and order and order[0] == tid:
                cnt += 1
        return cnt


def explore(make_bodies, bound, check, opcodes=False, max_exec=None):
    """Enumerate every schedule with at most `bound` preemptions.
    make_bodies() -> (bodies, state) builds fresh thread bodies (fresh shared object) for each execution;
    check(execution, state) is called for each complete execution.
    Returns (executions, max_points, capped)."""
    count = 0
    maxp = 0
    capped = False
    stack = [{}]
    while stack:
        prefix = stack.pop()
        bodies, state = make_bodies()
        ex = Execution(bodies, prefix, opcodes=opcodes).run()
        ex.fill_orders()
        for pos, c in prefix.items():
            if pos >= len(ex.points) or ex.points[pos][2] != c:
                raise Divergence("replayed prefix diverged at %d" % pos)
        plen = (max(prefix) + 1) if prefix else 0
        count += 1
        maxp = max(maxp, len(ex.points))
        check(ex, state)
        if max_exec and count >= max_exec:
            capped = True
            break
        cost = ex.preemptions_before(plen)
        for i in range(plen, len(ex.points)):
            tid, order, c = ex.points[i]
            is_preempt = tid is not None and tid >= 0 and bool(order) and order[0] == tid
            if cost + (1 if is_preempt else 0) <= bound:
                for alt in range(1, len(order)):
                    d = dict(prefix)
                    d[i] = alt
                    stack.append(d)
            if is_preempt and c != 0:
                cost += 1
    return count, maxp, capped
