"""setup_cmd: nothing to build (pure Python against /repo's working tree); verifies the toolchain is usable."""
import sys
from mc import common
common.bind_repo()
import sqlite3
from mc import fp, zoo
Z, un = zoo.term_zoo()
assert len(Z) > 100, len(Z)
print("selftest ok: python %s sqlite %s, %d term factories, unconstructible=%s" % (sys.version.split()[0], sqlite3.sqlite_version, len(Z), un))
