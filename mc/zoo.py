"""Object zoo: an instance factory for every Term subclass found in the live modules, and statement seeds
for every builder class.  Shared by C01, C02, C12, C15, C16.  Everything is built through the public API."""
from __future__ import annotations

import enum
import importlib
import inspect

from mc.fp import P, QCLS  # binds the repo
from pypika_tortoise import terms as T
from pypika_tortoise import analytics as AN
from pypika_tortoise import functions as FN
from pypika_tortoise import queries as Q
from pypika_tortoise.enums import Boolean, DatePart, Equality, JoinType, Order
from pypika_tortoise.queries import Table, Query

MODS = ["terms", "queries", "functions", "analytics", "pseudocolumns", "dialects.mysql", "dialects.postgresql",
        "dialects.mssql", "dialects.oracle", "dialects.sqlite"]


def live_modules():
    return [importlib.import_module("pypika_tortoise." + m) for m in MODS]


def all_classes():
    seen = {}
    for M in live_modules():
        for n, c in vars(M).items():
            if inspect.isclass(c) and c.__module__ == M.__name__:
                seen[c.__module__ + "." + c.__qualname__] = c
    return seen


def term_classes():
    return {k: c for k, c in all_classes().items() if issubclass(c, T.Term)}


from pypika_tortoise import functions as _F  # noqa: E402
from pypika_tortoise.enums import SqlTypes as _SqlTypes  # noqa: E402


class _Col(enum.Enum):
    red = "red'x"


class _StrCol(str, enum.Enum):
    blue = "blue"


class _IntCol(int, enum.Enum):
    two = 2


class _Enc(enum.Enum):
    utf8 = "utf8"


def _auto_function(cls):
    """constructor by signature introspection for Function subclasses: every positional parameter gets an
    operand Field; parameters with telling names get a fitting constant."""
    sig = inspect.signature(cls.__init__)
    plan = []
    n = 0
    for name, p in list(sig.parameters.items())[1:]:
        if name in ("alias", "kwargs") or p.kind == p.VAR_KEYWORD:
            continue
        if p.kind == p.VAR_POSITIONAL:
            plan += [("f", n), ("f", n + 1)]
            n += 2
        elif name == "as_type":
            plan.append(("c", "INTEGER"))
        elif name == "encoding":
            plan.append(("c", _Enc.utf8))
        elif name == "percentile":
            plan.append(("c", 0.5))
        elif name in ("date_part",):
            plan.append(("c", DatePart.year))
        elif name == "name":
            plan.append(("c", "FN"))
        elif p.default is not p.empty and p.default is None:
            plan.append(("c", None))
        else:
            plan.append(("f", n))
            n += 1

    has_alias = "alias" in sig.parameters

    def build(f, alias=None):
        args = [(f[i] if k == "f" else i) for k, i in plan]
        if alias is not None and has_alias:
            return cls(*args, alias=alias)
        return cls(*args)

    build.takes_alias = has_alias
    return n, build


def term_zoo():
    """list of (name, n_operand_slots, build(fields) -> term).  build gets a list of fresh Field objects."""
    Z = []

    def add(name, n, fn):
        Z.append((name, n, fn))

    add("Field", 1, lambda f: f[0])
    add("Star", 1, lambda f: T.Star(f[0].table))
    add("Negative", 1, lambda f: -f[0])
    add("ValueWrapper", 0, lambda f: T.ValueWrapper(5))
    add("ValueWrapper.str", 0, lambda f: T.ValueWrapper("v"))
    add("ValueWrapper.np", 0, lambda f: T.ValueWrapper(7, allow_parametrize=False))
    add("JSON", 0, lambda f: T.JSON({"k": [1, "x"]}))
    add("Values", 1, lambda f: T.Values(f[0]))
    add("LiteralValue", 0, lambda f: T.LiteralValue("CURRENT_USER"))
    add("NullValue", 0, lambda f: T.NullValue())
    add("SystemTimeValue", 0, lambda f: T.SystemTimeValue())
    add("Tuple", 2, lambda f: T.Tuple(f[0], f[1]))
    add("Array", 2, lambda f: T.Array(f[0], f[1]))
    add("Array.const", 0, lambda f: T.Array(1, "x", 2.5))  # plain values only: one parameter when parameterised
    add("Tuple.const", 0, lambda f: T.Tuple(1, "x"))
    add("Bracket", 1, lambda f: T.Bracket(f[0]))
    add("NestedCriterion", 3, lambda f: T.NestedCriterion(Equality.eq, Boolean.and_, f[0], f[1], f[2]))
    add("BasicCriterion", 2, lambda f: f[0] == f[1])
    add("BasicCriterion.like", 1, lambda f: f[0].like("x%"))
    # the pattern / comparison methods of Term with a column where a constant usually stands
    for _m in ("like", "not_like", "ilike", "not_ilike", "rlike", "regex", "bin_regex", "glob", "eq", "ne", "gt", "gte", "lt", "lte"):
        add("BasicCriterion.m_%s" % _m, 2, (lambda m: (lambda f: getattr(f[0], m)(f[1])))(_m))
    add("ContainsCriterion", 2, lambda f: f[0].isin([f[1], 2]))
    add("ContainsCriterion.neg", 2, lambda f: f[0].notin([f[1], 2]))
    add("ContainsCriterion.sub", 2, lambda f: f[0].isin(Query.from_(f[1].table).select(f[1])))
    add("BetweenCriterion", 3, lambda f: f[0].between(f[1], f[2]))
    add("PeriodCriterion", 3, lambda f: f[0].from_to(f[1], f[2]))
    add("BitwiseAndCriterion", 1, lambda f: f[0].bitwiseand(3))
    add("NullCriterion", 1, lambda f: f[0].isnull())
    add("ComplexCriterion", 2, lambda f: (f[0] == 1) & (f[1] == 2))
    add("ComplexCriterion.or", 2, lambda f: (f[0] == 1) | (f[1] == 2))
    add("ArithmeticExpression", 2, lambda f: f[0] + f[1])
    add("ArithmeticExpression.mul", 2, lambda f: (f[0] + 1) * f[1])
    add("Case", 3, lambda f: T.Case().when(f[0] == 1, f[1]).else_(f[2]))
    add("Not", 2, lambda f: ~(f[0] == f[1]))
    add("All", 1, lambda f: T.All(f[0]))
    add("Function", 2, lambda f: T.Function("FN", f[0], f[1]))
    add("Function.schema", 1, lambda f: T.Function("score", f[0], 3, schema=Q.Schema("util")))  # schema-qualified call
    add("AggregateFunction", 1, lambda f: T.AggregateFunction("AGG", f[0]))
    add("AggregateFunction.filter", 2, lambda f: T.AggregateFunction("AGG", f[0]).filter(f[1] == 1))
    add("AnalyticFunction", 3, lambda f: T.AnalyticFunction("ANF", f[0]).over(f[1]).orderby(f[2], order=Order.desc))
    add("AnalyticFunction.filter", 3, lambda f: T.AnalyticFunction("ANF", f[0]).filter(f[1] == 1).over(f[2]))
    add("WindowFrameAnalyticFunction", 3,
        lambda f: T.WindowFrameAnalyticFunction("WFN", f[0]).over(f[1]).orderby(f[2]).rows(AN.Preceding(1), AN.CURRENT_ROW))
    add("IgnoreNullsAnalyticFunction", 2, lambda f: T.IgnoreNullsAnalyticFunction("IGN", f[0]).over(f[1]).ignore_nulls())
    add("Pow", 1, lambda f: T.Pow(f[0], 2))
    add("Mod", 2, lambda f: T.Mod(f[0], f[1]))
    add("Rollup", 2, lambda f: T.Rollup(f[0], f[1]))
    add("PseudoColumn", 0, lambda f: T.PseudoColumn("ROWNUM"))
    add("AtTimezone", 1, lambda f: T.AtTimezone(f[0], "UTC"))
    add("Index", 0, lambda f: T.Index("idx"))
    add("Parameter", 0, lambda f: T.Parameter("?"))
    add("Parameter.idx", 0, lambda f: T.Parameter(idx=2))  # positional: the placeholder style is the dialect's
    # constructor parameters that usually receive a constant, given a term / a library singleton instead
    add("functions.RegexpLike.mod", 3, lambda f: _F.RegexpLike(f[0], f[1], f[2]))
    add("functions.RegexpMatches.modconst", 1, lambda f: _F.RegexpMatches(f[0], "^a", "gi"))
    add("All.method", 1, lambda f: f[0].all_())
    add("Array.empty", 0, lambda f: T.Array())
    add("Tuple.single", 1, lambda f: T.Tuple(f[0]))
    add("functions.Extract.part", 2, lambda f: _F.Extract(f[0], f[1]))
    add("functions.Cast.sqltype", 1, lambda f: _F.Cast(f[0], _SqlTypes.VARCHAR))
    add("functions.Cast.sqltype_len", 1, lambda f: _F.Cast(f[0], _SqlTypes.VARCHAR(24)))
    add("functions.Count.star", 1, lambda f: _F.Count(T.Star(f[0].table)))
    add("functions.Count.distinct", 1, lambda f: _F.Count(f[0]).distinct())
    add("AnalyticFunction.strkey", 2, lambda f: T.AnalyticFunction("ANF", f[0]).over("grp", f[1]))
    add("AnalyticFunction.strarg", 2, lambda f: T.AnalyticFunction("ANF", "lit", f[0]).over(f[1]))
    add("Function.strarg", 1, lambda f: T.Function("FN", "lit", f[0]))
    add("QueryBuilder", 2, lambda f: Query.from_(f[0].table).select(f[0]).where(f[1] == 1))
    add("_SetOperation", 2, lambda f: Query.from_(f[0].table).select(f[0]).union(Query.from_(f[1].table).select(f[1])))
    covered = {"Field", "Star", "Negative", "ValueWrapper", "JSON", "Values", "LiteralValue", "NullValue",
               "SystemTimeValue", "Tuple", "Array", "Bracket", "NestedCriterion", "BasicCriterion",
               "ContainsCriterion", "BetweenCriterion", "PeriodCriterion", "BitwiseAndCriterion", "NullCriterion",
               "ComplexCriterion", "ArithmeticExpression", "Case", "Not", "All", "Function", "AggregateFunction",
               "AnalyticFunction", "WindowFrameAnalyticFunction", "IgnoreNullsAnalyticFunction", "Pow", "Mod",
               "Rollup", "PseudoColumn", "AtTimezone", "Index", "Parameter", "QueryBuilder", "_SetOperation",
               "Term", "Criterion", "RangeCriterion"}
    unconstructible = []
    for key, cls in sorted(term_classes().items()):
        nm = cls.__qualname__
        if cls.__module__.endswith(("functions", "analytics")):
            nm = cls.__module__.split(".")[-1] + "." + nm
        if cls.__qualname__ in covered and not cls.__module__.endswith(("functions", "analytics")):
            continue
        if issubclass(cls, (Q.QueryBuilder, Q._SetOperation)):
            continue  # statement seeds cover the dialect builders
        if issubclass(cls, T.ValueWrapper):
            add(nm, 0, (lambda c: (lambda f: c("v")))(cls))
            continue
        if issubclass(cls, T.Function):
            try:
                n, b = _auto_function(cls)
                flds = [Table("zz").field("c%d" % i) for i in range(max(n, 1))]
                b(flds).get_sql(Query.SQL_CONTEXT)
                add(nm, n, b)
                continue
            except Exception as e:  # pragma: no cover
                unconstructible.append((nm, repr(e)))
                continue
        unconstructible.append((nm, "no constructor rule"))
    return Z, unconstructible


# --------------------------------------------------------------------------------------------------
# statement seeds (every list/set-valued clause non-empty in the "full" ones)


def stmt_seeds(dialect):
    """dict name -> factory() returning a freshly built statement of the given dialect's builder class."""
    QQ = QCLS[dialect]

    def tabs():
        return Table("t"), Table("u"), Table("v")

    S = {}

    def empty():
        return QQ._builder()

    def sel_min():
        t, u, v = tabs()
        return QQ.from_(t).select(t.a)

    def sel_full():
        t, u, v = tabs()
        sub = Query.from_(v).select(v.id)
        q = (QQ.with_(Query.from_(v).select(v.id, v.x), "cte").from_(t).select(t.a, (t.b + 1).as_("b1"), FN.Count(u.x).as_("n"))
             .join(u).on(t.id == u.tid).where(t.a > 1).where(t.b.isin(sub)).groupby(t.a, (t.b + 1).as_("b1"))
             .having(FN.Count(u.x) > 0).orderby(t.a, order=Order.desc).limit(10).offset(5)
             .force_index("i1").use_index("i2").distinct())
        if dialect in ("generic", "mysql", "postgresql"):
            q = q.for_update(of=("t", "u", "cte", "another"))
        return q

    def sel_rollup():
        t, u, v = tabs()
        return QQ.from_(t).select(t.a, FN.Sum(t.b)).rollup(t.a)

    def sel_star():
        t, u, v = tabs()
        return QQ.from_(t).join(u, JoinType.left).using("id").select(t.star, u.x).prewhere(t.a == 0)

    def sel_nested():
        t, u, v = tabs()
        inner = QQ.from_(u).select(u.x, u.y).where(u.x > 0)
        return QQ.from_(inner).select(inner.x).where(inner.y.isin(QQ.from_(v).select(v.id)))

    def ins():
        t, u, v = tabs()
        q = QQ.into(t).columns("a", "b").insert(1, "x").insert(2, "y")
        return q

    def ins_conf():
        t, u, v = tabs()
        return (QQ.into(t).columns(t.a, t.b).insert(1, "x").on_conflict("id", t.a).do_update("a", 5).do_update("b")
                .where(t.a > 0))

    def ins_nothing():
        t, u, v = tabs()
        return QQ.into(t).insert(1, 2).on_conflict("id").do_nothing()

    def ins_sel():
        t, u, v = tabs()
        return QQ.into(t).columns("a").from_(u).select(u.x).where(u.y == 3)

    def upd():
        t, u, v = tabs()
        return QQ.update(t).set(t.a, 1).set("b", "z").where(t.id == 3)

    def upd_join():
        t, u, v = tabs()
        return QQ.update(t).join(u).on(t.id == u.tid).set(t.a, u.x).where(u.y > 1)

    def upd_from():
        t, u, v = tabs()
        return QQ.update(t).from_(u).set(t.a, u.x).where(t.id == u.tid)

    def dele():
        t, u, v = tabs()
        return QQ.from_(t).delete().where(t.a == 1)

    def sel_lits():
        # python constants of every kind through the builder's own wrapper class (select list) and the generic one (criteria)
        import datetime

        t, u, v = tabs()
        tz = datetime.timezone(datetime.timedelta(hours=5, minutes=30))
        return (QQ.from_(t).select(True, False, 1.5, None, datetime.date(2020, 1, 2), T.ValueWrapper("a\\b'c")).select(t.a)
                .select(datetime.time(8, 30, tzinfo=tz), datetime.datetime(2021, 5, 6, 7, 8, 9, tzinfo=tz), T.Parameter(idx=1))
                .where(t.flag == True).where(t.s == "q\\")  # noqa: E712
                .where(t.d.isin([False, 2])))

    def upd_lits():
        import decimal

        t, u, v = tabs()
        import datetime

        tz = datetime.timezone(datetime.timedelta(hours=-3))
        return (QQ.update(t).set(t.a, True).set(t.b, False).set("c", decimal.Decimal("1.10")).set("j", {"k": "a\\b"})
                .set("tm", datetime.time(23, 59, 1, tzinfo=tz)).where(t.ok == False))  # noqa: E712

    def sel_shared():
        # one and the same object at several places of a statement (an aliased criterion selected, filtered on and
        # compared; an expression selected under an alias and used in WHERE / ORDER BY)
        t, u, v = tabs()
        c = (t.a > 1).as_("big")
        x = (t.b * 2).as_("dbl")
        return (QQ.from_(t).select(c, FN.Sum(t.b).filter(c).as_("s"), x).where(x > 10).where(c).groupby(c, x).orderby(x))

    S.update(sel_lits=sel_lits, upd_lits=upd_lits, sel_shared=sel_shared)
    S.update(empty=empty, sel_min=sel_min, sel_full=sel_full, sel_rollup=sel_rollup, sel_star=sel_star,
             sel_nested=sel_nested, ins=ins, ins_conf=ins_conf, ins_nothing=ins_nothing, ins_sel=ins_sel, upd=upd,
             upd_join=upd_join, upd_from=upd_from, dele=dele)

    if dialect == "postgresql":
        def pg_ret():
            t, u, v = tabs()
            return QQ.into(t).insert(1, 2).returning("id", t.a)

        def pg_upd_ret():
            t, u, v = tabs()
            return QQ.update(t).set(t.a, 1).where(t.id == 3).returning(t.id)

        def pg_don():
            t, u, v = tabs()
            return QQ.from_(t).distinct_on("a", t.b).select(t.a, t.b)

        def pg_ret_star():
            t, u, v = tabs()
            return QQ.into(t).insert(1, 2).returning("*")

        def pg_upd_ret_tstar():
            t, u, v = tabs()
            return QQ.update(t).from_(u).set(t.a, u.x).where(t.id == u.tid).returning(t.star)

        def pg_del_ret():
            t, u, v = tabs()
            return QQ.from_(t).delete().where(t.id == 3).returning("*")

        S.update(pg_ret=pg_ret, pg_upd_ret=pg_upd_ret, pg_don=pg_don, pg_ret_star=pg_ret_star, pg_upd_ret_tstar=pg_upd_ret_tstar,
                 pg_del_ret=pg_del_ret)
    if dialect == "mysql":
        def my_mod():
            t, u, v = tabs()
            return QQ.from_(t).select(t.a).modifier("SQL_CALC_FOUND_ROWS")

        def my_rollup():
            t, u, v = tabs()
            return QQ.from_(t).select(t.a, FN.Sum(t.b)).groupby(t.a).rollup(vendor="mysql")

        def my_upd_lim():
            t, u, v = tabs()
            return QQ.update(t).set(t.a, 1).orderby(t.b).limit(3)

        S.update(my_mod=my_mod, my_rollup=my_rollup, my_upd_lim=my_upd_lim)
    if dialect == "mssql":
        def ms_top():
            t, u, v = tabs()
            return QQ.from_(t).select(t.a).top(5)

        def ms_page():
            t, u, v = tabs()
            return QQ.from_(t).select(t.a).orderby(t.a).offset(2).fetch_next(4)

        S.update(ms_top=ms_top, ms_page=ms_page)
    return S


def sens_seeds():
    """constant-only terms whose inline form depends on the dialect (string escaping, boolean / array / interval / JSON
    forms): a render cache keyed without the dialect is only visible on such content"""
    import datetime

    def col():
        return Table("t").field("c0")

    BS = "a\\b'c\"d\\"
    S = {
        "str": lambda: T.ValueWrapper(BS),
        "tuple": lambda: T.Tuple(BS, "q'", 1),
        "isin": lambda: col().isin([BS, "q'"]),
        "eq_tuple": lambda: col() == T.Tuple(BS, 2),
        "bool": lambda: T.ValueWrapper(True),
        "bool_crit": lambda: (col() == True) & (col() != False),  # noqa: E712
        "array": lambda: T.Array(1, BS),
        "array_crit": lambda: col() == T.Array("x", "y"),
        "json": lambda: T.JSON({"k": [1, BS]}),
        "dict": lambda: T.ValueWrapper({"k": BS}),
        "interval": lambda: T.Interval(days=1, hours=2),
        "interval_expr": lambda: col() + T.Interval(days=1, hours=2),
        "interval_fn": lambda: T.Function("DATE_ADD", col(), T.Interval(hours=36)),
        "date": lambda: T.ValueWrapper(datetime.date(2020, 1, 2)),
        "case_const": lambda: T.Case().when(col() == BS, T.Interval(hours=1)).else_(True),
        "like": lambda: col().like(BS),
        # enum members (plain, str-mixin, int-mixin) as constants: inlined by value, never bound as parameters
        "enum": lambda: T.Tuple(_Col.red, _StrCol.blue, _IntCol.two),
        "enum_crit": lambda: (col() == _Col.red) & col().isin([_StrCol.blue, _IntCol.two]),
        # a term as the bound of a window frame
        "frame_interval": lambda: AN.Sum(col()).over(col()).orderby(col()).range(AN.Preceding(T.Interval(days=1)), AN.Following(T.Interval(hours=2))),
    }
    return S


def setop_seeds(dialect):
    QQ = QCLS[dialect]

    def two():
        t, u = Table("t"), Table("u")
        return QQ.from_(t).select(t.a).union(QQ.from_(u).select(u.x))

    def three_ord():
        t, u, v = Table("t"), Table("u"), Table("v")
        return (QQ.from_(t).select(t.a.as_("k")).union_all(QQ.from_(u).select(u.x)).intersect(QQ.from_(v).select(v.id))
                .orderby(t.a.as_("k"), order=Order.asc).limit(3).offset(1))

    def ord_aliased():
        # ORDER BY / operands over an aliased table: a qualifier shows in the rendering, so a write through shared ORDER BY
        # entries is visible
        t, u = Table("t", alias="ta"), Table("u")
        return QQ.from_(t).select(t.a, t.b).union(QQ.from_(u).select(u.x, u.y)).orderby(t.a, order=Order.desc).orderby(t.b)

    return {"two": two, "three_ord": three_ord, "ord_aliased": ord_aliased}


def ddl_seeds():
    from pypika_tortoise.queries import Column, CreateQueryBuilder, DropQueryBuilder
    from pypika_tortoise.dialects import MySQLLoadQueryBuilder

    def c_empty():
        return CreateQueryBuilder()

    def c_named():
        return Query.create_table("t")

    def c_full():
        return (Query.create_table(Table("t")).columns(Column("a", "INT", nullable=False, default=1), ("b", "VARCHAR(5)"), "c")
                .unique("a", "b").unique("c").primary_key("a").period_for("p", "a", "b").if_not_exists().temporary())

    def c_as():
        u = Table("u")
        return Query.create_table("t").as_select(Query.from_(u).select(u.x))

    def d_empty():
        return DropQueryBuilder()

    def d_full():
        return Query.drop_table("t").if_exists()

    def l_empty():
        return MySQLLoadQueryBuilder()

    def l_full():
        return MySQLLoadQueryBuilder().load("/f.csv").into("t")

    return {"create": {"c_empty": c_empty, "c_named": c_named, "c_full": c_full, "c_as": c_as},
            "drop": {"d_empty": d_empty, "d_full": d_full},
            "load": {"l_empty": l_empty, "l_full": l_full}}
