#!/venv/bin/python
"""usage: add_finding.py fixed <prop> <commit> <signature> <what failed>   |   known <prop> <signature> <what fails> [witness]"""
import json, sys, os
p = os.path.join(os.path.dirname(os.path.dirname(os.path.abspath(__file__))), "known_findings.json")
d = json.load(open(p))
kind = sys.argv[1]
if kind == "fixed":
    _, _, prop, commit, sig, what = sys.argv[:6]
    e = {"property": prop, "signature": sig, "status": "fixed", "commit": commit, "what_fails": what,
         "line": "fixed: property=%s %s %s" % (prop, commit, what)}
else:
    _, _, prop, sig, what = sys.argv[:5]
    e = {"property": prop, "signature": sig, "status": "known", "what_fails": what}
    if len(sys.argv) > 5:
        e["witness"] = sys.argv[5]
d["findings"] = [x for x in d["findings"] if not (x["property"] == e["property"] and x["signature"] == e["signature"])] + [e]
json.dump(d, open(p, "w"), indent=1)
