#!/venv/bin/python
"""Which @builder methods of the seed classes have no op in C01's alphabet?  (exit 1 if any statement / set-operation / DDL / table /
join family misses one; the `sens` constants and the `term:QueryBuilder` / `term:_SetOperation` zoo entries are covered by the
statement families and are only listed)"""
import os
import sys

sys.path.insert(0, os.path.dirname(os.path.dirname(os.path.abspath(__file__))))
from mc.checks import c01  # noqa: E402

bad = 0
for fam, (seeds, ops) in sorted(c01.FAM.items()):
    for cls in sorted({type(f()) for f in seeds.values()}, key=lambda c: c.__name__):
        miss = sorted(set(c01.builder_methods(cls)) - {k.split(":")[0] for k in ops})
        if miss:
            listed_only = fam == "sens" or fam in ("term:QueryBuilder", "term:_SetOperation")
            print("%s %s: no op for %s%s" % (fam, cls.__name__, miss, " (covered elsewhere)" if listed_only else ""))
            bad += 0 if listed_only else 1
print("families=%d uncovered=%d" % (len(c01.FAM), bad))
sys.exit(1 if bad else 0)
