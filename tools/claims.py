CLAIMS = {
    "C01": dict(
        text="Explicit-state exploration of the real builder state machine: every builder-decorated method (discovered by introspection, 92 methods) applied in every ordered pair (thorough: triples of container-touching ops) and every call-tree shape to 3-14 seeds per builder class and to an instance of every Term subclass; after every call every live object (seed, ancestors, siblings, arguments) must have an unchanged object graph, otherwise its renderings under six dialects x {inline, parameterised} are compared with a freshly rebuilt twin; results must not depend on sibling calls. Exhaustive within the stated alphabet and depth; not a proof for unbounded histories, but container sharing shows at depth 2.",
        note="Trusted: deepfp (object-graph fingerprint incl. aliasing) is at least as fine as anything a render can read; argument factories are a finite menu (1-3 per method).",
        technique="explicit-state BFS over builder-call trees on the real objects, object-graph fingerprint invariant + differential observation",
    ),
    "C18": dict(
        text="Bounded-exhaustive enumeration of every 7-tuple of interval components over a digit-pattern domain (quick 5^7, thorough 8^7 = 2.1M tuples), each also with the leading component negated, plus quarters/weeks, rendered under all six dialect contexts; an independent reference reader parses the literal by the unit designator's field layout and must recover exactly the supplied components, sign and the dialect's quoting form. Exhaustive over the domain; the domain covers every character class the trimming regex distinguishes.",
        note="Trusted: reference reader + quoting-form table in mc/checks/c18.py; integers outside the digit-pattern domain are represented by their pattern class.",
        technique="bounded-exhaustive input enumeration on the real renderer against a reference parser",
    ),
}
