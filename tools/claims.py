CLAIMS = {
    "C01": dict(
        text="Explicit-state exploration of the real builder state machine: every builder-decorated method (discovered by introspection, 92 methods) applied in every ordered pair (thorough: triples of container-touching ops) and every call-tree shape to 3-14 seeds per builder class and to an instance of every Term subclass; after every call every live object (seed, ancestors, siblings, arguments) must have an unchanged object graph, otherwise its renderings under six dialects x {inline, parameterised} are compared with a freshly rebuilt twin; results must not depend on sibling calls. Exhaustive within the stated alphabet and depth; not a proof for unbounded histories, but container sharing shows at depth 2.",
        note="Trusted: deepfp (object-graph fingerprint incl. aliasing) is at least as fine as anything a render can read; argument factories are a finite menu (1-3 per method).",
        technique="explicit-state BFS over builder-call trees on the real objects, object-graph fingerprint invariant + differential observation",
    ),
    "C18": dict(
        text="Bounded-exhaustive enumeration of every 7-tuple of interval components over a digit-pattern domain (quick 5^7, thorough 8^7 = 2.1M tuples), each also with the leading component negated, plus quarters/weeks, rendered under all six dialect contexts; an independent reference reader parses the literal by the unit designator's field layout and must recover exactly the supplied components, sign and the dialect's quoting form. Exhaustive over the domain; the domain covers every character class the trimming regex distinguishes.",
        note="Trusted: reference reader + quoting-form table in mc/checks/c18.py; integers outside the digit-pattern domain are represented by their pattern class.",
        technique="bounded-exhaustive input enumeration on the real renderer against a reference parser",
    ),
    "C02": dict(
        text="Three exhaustive explorations on the real code. (a) Render histories: ~4400 objects (every seed of every builder/term family and each depth-1 successor) x 21 render operations (str, repr, get_sql under six dialect contexts inline and parameterised, get_parameterized_sql, hash, ==, fields_, tables_): each transition must leave the object graph unchanged and reproduce the output of a freshly built object; all ordered pairs and 3-fold repeats of render ops on the seeds. (b) Schedules: two real threads render one shared object under a controlled scheduler (sys.settrace line events as scheduling points, semaphore baton); every interleaving with <=1 preemption (thorough: 2, 3 threads, opcode granularity) is executed for 60 object/op-pairs, plus any corpus object whose render has a non-empty write set. (c) Configurations: all iteration orders of attribute-held sets; whole-corpus digests in subprocesses with PYTHONHASHSEED 1..7 (thorough 1..63 + seed-derived).",
        note="Trusted: line-event granularity of the scheduler (GIL makes bytecodes atomic); hash seeds outside the swept list only matter for sets created and iterated inside one render; module-global writes without output change are reported, not failed.",
        technique="explicit-state exploration of render-op histories + stateless schedule enumeration with preemption bounding (CHESS-style) on real threads + configuration enumeration",
    ),
}
