#!/venv/bin/python
"""Regenerates /verif/MANIFEST.json from the table below (kept in one place so it is always valid)."""
import json, os, sys
V = os.path.dirname(os.path.dirname(os.path.abspath(__file__)))
sys.path.insert(0, V)
BASE = "cd /repo && /venv/bin/python -m pytest -ra -q -p no:cacheprovider --timeout=900 --continue-on-collection-errors"
props = [json.loads(l) for l in open(os.path.join(V, "properties.jsonl"))]
from tools.claims import CLAIMS  # id -> dict(text, note, technique, design_ref)
checks, na = [], []
for p in props:
    i = p["id"]
    c = CLAIMS.get(i)
    if not c or c.get("na"):
        na.append({"property_id": i, "reason": (c or {}).get("na", "check not built yet in this revision of /verif (work in progress; see DESIGN.md section 3)")})
        continue
    checks.append({
        "property_id": i,
        "quick_cmd": "/venv/bin/python -m mc.check %s --tier quick" % i,
        "thorough_cmd": "/venv/bin/python -m mc.check %s --tier thorough" % i,
        "evidence_file": "/verif/evidence/%s.json" % i,
        "replay_cmd_template": "/venv/bin/python -m mc.replay {path}",
        "engine": "mc",
        "level_claimed": {"category": "model_checking", "text": c["text"], "design_ref": c.get("design_ref", "DESIGN.md section 3 (%s)" % i)},
        "level_note": c["note"],
        "technique": c["technique"],
    })
m = {
    "version": 1,
    "setup_cmd": "cd /verif && /venv/bin/python -m mc.selftest",
    "hooks": {"guard": "PYPIKA_TORTOISE_VERIF", "enable": "no source hooks are needed: checks import /repo's working tree directly (sys.path[0]=/repo) and instrument from outside (sys.settrace, object-graph fingerprints)", "baseline_off_cmd": BASE, "source_commits": [], "add_only": True},
    "engines": [{"name": "mc", "path": "/verif/mc", "serves_properties": [c["property_id"] for c in checks], "kind_free_text": "hand-written explicit-state / bounded-exhaustive explorer over the real library (Python), reference models in mc/ (lexers, parser, transcriber, sqlite3 engine), controlled thread scheduler"}],
    "checks": checks,
    "not_applicable": na,
    "notes": "Genuine defects found on the pinned tree are repaired by 'fix:' commits in /repo or listed in /verif/known_findings.json; see DESIGN.md.",
}
json.dump(m, open(os.path.join(V, "MANIFEST.json"), "w"), indent=1)
print("checks:", [c["property_id"] for c in checks], "na:", [n["property_id"] for n in na])
