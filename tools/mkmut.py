#!/venv/bin/python
"""mkmut.py <name> <file-relative-to-repo> <<< python dict literal {'old':..., 'new':...}; writes mutants/<name>.diff from HEAD"""
import ast, os, subprocess, sys, tempfile
name, rel = sys.argv[1], sys.argv[2]
spec = ast.literal_eval(sys.stdin.read())
tmp = tempfile.mkdtemp(prefix="mk_", dir="/tmp")
wt = os.path.join(tmp, "wt")
subprocess.check_call(["git", "-C", "/repo", "worktree", "add", "-q", "--detach", wt, "HEAD"])
try:
    pairs = spec if isinstance(spec, list) else [spec]
    for sp in pairs:
        p = os.path.join(wt, sp.get("file", rel))
        s = open(p).read()
        assert s.count(sp["old"]) >= 1, "old text not found: %r" % sp["old"][:60]
        s = s.replace(sp["old"], sp["new"], 1)
        open(p, "w").write(s)
    d = subprocess.run(["git", "-C", wt, "diff"], capture_output=True, text=True).stdout
    open("/verif/mutants/%s.diff" % name, "w").write(d)
    print("wrote mutants/%s.diff (%d lines)" % (name, d.count("\n")))
finally:
    subprocess.call(["git", "-C", "/repo", "worktree", "remove", "--force", wt])
    os.rmdir(tmp)
