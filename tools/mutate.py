#!/venv/bin/python
"""Run checks against a scratch copy of /repo with one patch applied (never touches /repo).
usage: tools/mutate.py <patch.diff> <PROP>[,<PROP>...] [--tier quick] [--no-tests]
Prints: tests pass/fail, and for each property the check's exit code and first VIOLATION lines."""
import os, shutil, subprocess, sys, tempfile

patch = os.path.abspath(sys.argv[1])
props = sys.argv[2].split(",")
tier = "quick"
if "--tier" in sys.argv:
    tier = sys.argv[sys.argv.index("--tier") + 1]
tmp = tempfile.mkdtemp(prefix="mut_", dir="/tmp")
try:
    repo = os.path.join(tmp, "repo")
    subprocess.check_call(["git", "-C", "/repo", "worktree", "add", "-q", "--detach", repo, "HEAD"])
    try:
        r = subprocess.run(["git", "-C", repo, "apply", patch], capture_output=True, text=True)
        if r.returncode:
            print("PATCH DOES NOT APPLY:", r.stderr)
            sys.exit(3)
        if "--no-tests" not in sys.argv:
            t = subprocess.run(["/venv/bin/python", "-m", "pytest", "-q", "-p", "no:cacheprovider", "-x"], cwd=repo,
                               capture_output=True, text=True, env=dict(os.environ, PYTHONDONTWRITEBYTECODE="1"))
            print("TESTS:", t.stdout.strip().splitlines()[-1] if t.stdout.strip() else t.stderr[-300:])
        for p in props:
            env = dict(os.environ, VERIF_REPO=repo, VERIF_OUT=os.path.join(tmp, "out"), PYTHONDONTWRITEBYTECODE="1")
            c = subprocess.run(["/venv/bin/python", "-m", "mc.check", p, "--tier", tier], cwd="/verif", env=env,
                               capture_output=True, text=True)
            lines = c.stdout.strip().splitlines()
            viol = [l for l in lines if l.startswith("VIOLATION")]
            sigs = [l.strip() for l in lines if l.strip().startswith("signature:")]
            print("%s exit=%d violations=%d %s" % (p, c.returncode, len(viol), "; ".join(sigs[:4])))
            if c.returncode not in (0, 1):
                print(c.stdout[-1500:], c.stderr[-1500:])
            print("   ", lines[-1] if lines else "")
    finally:
        subprocess.call(["git", "-C", "/repo", "worktree", "remove", "--force", repo])
finally:
    shutil.rmtree(tmp, ignore_errors=True)
