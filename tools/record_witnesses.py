#!/venv/bin/python
"""Record, for every known finding, the inputs (case keys) that fail with its signature on the current tree.
usage: tools/record_witnesses.py [C03 C05 ...]   (default: every property that has a known finding)
Runs the quick and the thorough tier of each check with VERIF_RECORD_WITNESSES=1 (output dir outside /verif/evidence) and
rewrites /verif/known_witnesses/<prop>.json.  Must be re-run whenever the case enumeration of such a check changes."""
import json
import os
import shutil
import subprocess
import sys
import tempfile

root = os.path.dirname(os.path.dirname(os.path.abspath(__file__)))
props = sys.argv[1:] or sorted({f["property"] for f in json.load(open(os.path.join(root, "known_findings.json")))["findings"] if f["status"] == "known"})
tmp = tempfile.mkdtemp(prefix="wit_", dir="/tmp")
try:
    for p in props:
        f = os.path.join(root, "known_witnesses", p + ".json")
        if os.path.exists(f):
            os.remove(f)
        for tier in ("quick", "thorough"):
            env = dict(os.environ, VERIF_RECORD_WITNESSES="1", VERIF_OUT=tmp)
            r = subprocess.run(["/venv/bin/python", "-m", "mc.check", p, "--tier", tier], cwd=root, env=env, capture_output=True, text=True)
            print(p, tier, r.stdout.strip().splitlines()[-1] if r.stdout.strip() else r.stderr[-300:])
        d = json.load(open(f)) if os.path.exists(f) else {}
        print("  recorded:", {k: len(v) for k, v in d.items()})
        if p == "C01":
            # builder calls of the alphabet that raise on the reference tree (per-process scratch files written by mc/checks/c01.py)
            import glob
            ents = set()
            for part in glob.glob(os.path.join(root, "known_witnesses", ".C01_raises.*")):
                ents.update(l.strip() for l in open(part) if l.strip())
                os.remove(part)
            json.dump(sorted(ents), open(os.path.join(root, "known_witnesses", "C01_raises.json"), "w"), indent=0)
            print("  raising calls recorded:", len(ents))
finally:
    shutil.rmtree(tmp, ignore_errors=True)
