#!/venv/bin/python
"""Confirm and evaluate a seeded change produced by a sub-agent.

usage: tools/seed_eval.py <agent out dir> <PROP> <index> [--props C01,C02,...] [--tier quick] [--keep <seeded id>]

Steps (all in a scratch worktree outside /repo and /verif, removed afterwards):
  1. demo on the unchanged tree must exit 0
  2. apply the patch; the pinned test suite must pass; the demo must exit 1
  3. run the registered quick checks (default: the property's own check; --props for more) with VERIF_REPO=<worktree>
With --keep the change is stored as /verif/seeded/<id>/ (patch.diff, demo.py, meta.json).
"""
import json
import os
import shutil
import subprocess
import sys
import tempfile

out, prop, idx = sys.argv[1], sys.argv[2], sys.argv[3]
props = [prop]
if "--props" in sys.argv:
    props = sys.argv[sys.argv.index("--props") + 1].split(",")
tier = sys.argv[sys.argv.index("--tier") + 1] if "--tier" in sys.argv else "quick"
keep = sys.argv[sys.argv.index("--keep") + 1] if "--keep" in sys.argv else None
patch = os.path.join(out, "patch%s.diff" % idx)
demo = os.path.join(out, "demo%s.py" % idx)
notes = os.path.join(out, "notes%s.md" % idx)
tmp = tempfile.mkdtemp(prefix="seed_", dir="/tmp")
wt = os.path.join(tmp, "repo")
report = {"property": prop, "patch": patch}
# the change was written against the commit the agent's worktree was at; if it no longer applies to HEAD (a later
# fix touched the same lines) it is evaluated on that commit
base = "HEAD"
agent_wt = os.path.dirname(os.path.abspath(out))
if "--base" in sys.argv:
    base = sys.argv[sys.argv.index("--base") + 1]
elif subprocess.run(["git", "-C", "/repo", "apply", "--check", patch], capture_output=True).returncode != 0:
    r = subprocess.run(["git", "-C", agent_wt, "rev-parse", "HEAD"], capture_output=True, text=True)
    if r.returncode == 0:
        base = r.stdout.strip()
report["base_commit"] = base if base != "HEAD" else subprocess.run(["git", "-C", "/repo", "rev-parse", "--short", "HEAD"], capture_output=True, text=True).stdout.strip()
for _attempt in range(5):  # (concurrent `git worktree add` calls can collide on the repository lock)
    if subprocess.call(["git", "-C", "/repo", "worktree", "add", "-q", "--detach", wt, base]) == 0:
        break
    import time
    time.sleep(1 + _attempt)
try:
    env = dict(os.environ, PYTHONPATH=wt, PYTHONDONTWRITEBYTECODE="1")
    import re
    # demos written in an agent's worktree may assert that the library was imported from that worktree
    demo_src = re.sub(r'"/tmp/s[a-z]_C\d\d"', '"/"', open(demo).read())
    open(os.path.join(tmp, "demo.py"), "w").write(demo_src)

    def run_demo():
        r = subprocess.run(["/venv/bin/python", os.path.join(tmp, "demo.py")], cwd=wt, env=env, capture_output=True, text=True, timeout=600)
        return r.returncode, (r.stdout + r.stderr)[-600:]

    rc0, o0 = run_demo()
    report["demo_unchanged_exit"] = rc0
    a = subprocess.run(["git", "-C", wt, "apply", patch], capture_output=True, text=True)
    if a.returncode:
        report["apply"] = "FAILED: " + a.stderr[-300:]
        print(json.dumps(report, indent=1))
        sys.exit(3)
    t = subprocess.run(["/venv/bin/python", "-m", "pytest", "-q", "-p", "no:cacheprovider"], cwd=wt, capture_output=True, text=True, env=env)
    report["tests"] = t.stdout.strip().splitlines()[-1] if t.stdout.strip() else t.stderr[-200:]
    rc1, o1 = run_demo()
    report["demo_changed_exit"] = rc1
    report["demo_changed_output"] = o1[-300:]
    report["confirmed"] = rc0 == 0 and rc1 == 1 and "failed" not in report["tests"] and "passed" in report["tests"]
    report["checks"] = {}
    for p in props:
        e = dict(os.environ, VERIF_REPO=wt, VERIF_OUT=os.path.join(tmp, "out"), PYTHONDONTWRITEBYTECODE="1")
        c = subprocess.run(["/venv/bin/python", "-m", "mc.check", p, "--tier", tier], cwd="/verif", env=e, capture_output=True, text=True)
        lines = c.stdout.strip().splitlines()
        sigs = [l.strip()[len("signature: "):] for l in lines if l.strip().startswith("signature:")]
        report["checks"][p] = {"exit": c.returncode, "violations": len([l for l in lines if l.startswith("VIOLATION")]), "signatures": sigs[:6],
                               "summary": lines[-1] if lines else c.stderr[-300:]}
    print(json.dumps(report, indent=1))
    if keep:
        d = os.path.join("/verif/seeded", keep)
        os.makedirs(d, exist_ok=True)
        shutil.copy(patch, os.path.join(d, "patch.diff"))
        open(os.path.join(d, "demo.py"), "w").write(demo_src)
        meta = {"breaks_property": prop, "origin": "independent sub-agent given only the property text and a scratch worktree",
                "needs_to_manifest": open(notes).read() if os.path.exists(notes) else "",
                "what_was_run": {"pinned test suite with the change": report["tests"], "demo on unchanged tree (exit)": rc0,
                                 "demo with the change (exit)": rc1, "demo output": o1[-300:],
                                 "checks with VERIF_REPO=<scratch worktree with the change>": report["checks"]},
                "confirmed": report["confirmed"], "base_commit": report["base_commit"],
                "detected_by": [p for p, r in report["checks"].items() if r["exit"] == 1]}
        json.dump(meta, open(os.path.join(d, "meta.json"), "w"), indent=1)
finally:
    subprocess.call(["git", "-C", "/repo", "worktree", "remove", "--force", wt])
    shutil.rmtree(tmp, ignore_errors=True)
