#!/venv/bin/python
"""Rebuild /verif/seeded/INDEX.md from the `sweep` records that tools/seed_sweep.py left in every seeded/<id>/meta.json
(used after partial sweeps with --only; a full sweep writes the same table itself)."""
import glob
import json
import os
import sys

rows = []
for d in sorted(x for x in glob.glob("/verif/seeded/*") if os.path.isdir(x)):
    meta = json.load(open(os.path.join(d, "meta.json")))
    rep = meta.get("sweep")
    if not rep:
        # not swept yet: the record tools/seed_eval.py wrote when the change was confirmed and stored
        run = meta.get("what_was_run", {})
        rep = {"confirmed": meta.get("confirmed"), "detected_by": meta.get("detected_by", []), "head": meta.get("base_commit", "?"),
               "checks": run.get("checks with VERIF_REPO=<scratch worktree with the change>", {})}
    rows.append((os.path.basename(d), meta["breaks_property"], rep, bool(meta.get("superseded"))))
heads = sorted({r[2].get("head", "?") for r in rows})
with open("/verif/seeded/INDEX.md", "w") as f:
    f.write("# Seeded changes (independent sub-agents), re-evaluated by tools/seed_sweep.py\n\n")
    f.write("Every change applies to /repo HEAD (%s at the time of its last sweep), passes the pinned suite, and its demo exits 1 with / 0 without it.\n" % ", ".join(heads))
    f.write("`detected by` lists the quick checks that exit 1 with a VIOLATION line on the changed tree (only the property's own check was run).\n\n")
    f.write("| id | property | confirmed | detected by | first signature |\n|---|---|---|---|---|\n")
    for sid, prop, rep, sup in rows:
        det = rep.get("detected_by", [])
        first = ""
        for p in det:
            if rep["checks"][p]["signatures"]:
                first = rep["checks"][p]["signatures"][0]
                break
        f.write("| %s | %s | %s | %s | `%s` |\n" % (sid, prop, rep.get("confirmed"), " ".join(det) or ("superseded (see meta.json)" if sup else "**none**"),
                                               first.replace("|", "\\|")))
bad = [sid for sid, prop, rep, sup in rows if (not rep.get("confirmed") or prop not in rep.get("detected_by", [])) and not sup]
print("seeds=%d not-confirmed-or-missed=%s" % (len(rows), bad))
sys.exit(1 if bad else 0)
