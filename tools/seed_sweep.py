#!/venv/bin/python
"""Re-evaluate every stored seeded change (/verif/seeded/<id>/) against the checks as they are now.

usage: tools/seed_sweep.py [--all-props] [--tier quick] [--only C01_sa1,...] [--jobs N]

For each seeded change, in a scratch worktree of /repo's HEAD (outside /repo and /verif, removed afterwards):
  demo on the unchanged tree must exit 0; patch.diff must apply; the pinned test suite must pass; the demo must exit 1;
  the property's own quick check (or all 18 with --all-props) is run with VERIF_REPO=<worktree>.
Results are written into each meta.json ("sweep") and summarised in /verif/seeded/INDEX.md.
Several seeds are evaluated at once; each check is given VERIF_JOBS so that the machine is not oversubscribed.
"""
import concurrent.futures
import glob
import json
import os
import shutil
import subprocess
import sys
import tempfile

ALL = ["C%02d" % i for i in range(1, 19)]
tier = sys.argv[sys.argv.index("--tier") + 1] if "--tier" in sys.argv else "quick"
only = sys.argv[sys.argv.index("--only") + 1].split(",") if "--only" in sys.argv else None
jobs = int(sys.argv[sys.argv.index("--jobs") + 1]) if "--jobs" in sys.argv else 4
allprops = "--all-props" in sys.argv
head = subprocess.run(["git", "-C", "/repo", "rev-parse", "--short", "HEAD"], capture_output=True, text=True).stdout.strip()


def superseded(sid):
    try:
        return bool(json.load(open("/verif/seeded/%s/meta.json" % sid)).get("superseded"))
    except Exception:
        return False


def evaluate(d):
    sid = os.path.basename(d)
    meta = json.load(open(os.path.join(d, "meta.json")))
    prop = meta["breaks_property"]
    tmp = tempfile.mkdtemp(prefix="sweep_", dir="/tmp")
    wt = os.path.join(tmp, "repo")
    for attempt in range(5):  # (concurrent `git worktree add` calls can collide on the repository lock)
        if subprocess.call(["git", "-C", "/repo", "worktree", "add", "-q", "--detach", wt, "HEAD"]) == 0:
            break
        import time
        time.sleep(1 + attempt)
    rep = {"head": head, "tier": tier}
    try:
        env = dict(os.environ, PYTHONPATH=wt, PYTHONDONTWRITEBYTECODE="1")
        shutil.copy(os.path.join(d, "demo.py"), os.path.join(tmp, "demo.py"))

        def demo():
            return subprocess.run(["/venv/bin/python", os.path.join(tmp, "demo.py")], cwd=wt, env=env, capture_output=True, text=True, timeout=900).returncode

        rep["demo_unchanged_exit"] = demo()
        a = subprocess.run(["git", "-C", wt, "apply", os.path.join(d, "patch.diff")], capture_output=True, text=True)
        if a.returncode:
            rep["apply"] = "FAILED " + a.stderr[-200:]
            return sid, prop, rep
        t = subprocess.run(["/venv/bin/python", "-m", "pytest", "-q", "-p", "no:cacheprovider"], cwd=wt, capture_output=True, text=True, env=env)
        rep["tests"] = t.stdout.strip().splitlines()[-1] if t.stdout.strip() else t.stderr[-200:]
        rep["demo_changed_exit"] = demo()
        rep["confirmed"] = rep["demo_unchanged_exit"] == 0 and rep["demo_changed_exit"] == 1 and "passed" in rep["tests"] and "failed" not in rep["tests"]
        rep["checks"] = {}
        for p in (ALL if allprops else [prop]):
            e = dict(os.environ, VERIF_REPO=wt, VERIF_OUT=os.path.join(tmp, "out"), PYTHONDONTWRITEBYTECODE="1", VERIF_JOBS=str(max(2, 16 // jobs)))
            c = subprocess.run(["/venv/bin/python", "-m", "mc.check", p, "--tier", tier], cwd="/verif", env=e, capture_output=True, text=True)
            lines = c.stdout.strip().splitlines()
            sigs = [l.strip()[len("signature: "):] for l in lines if l.strip().startswith("signature:")]
            rep["checks"][p] = {"exit": c.returncode, "violations": len([l for l in lines if l.startswith("VIOLATION")]), "signatures": sigs[:4]}
        rep["detected_by"] = [p for p, r in rep["checks"].items() if r["exit"] == 1]
    finally:
        subprocess.call(["git", "-C", "/repo", "worktree", "remove", "--force", wt])
        shutil.rmtree(tmp, ignore_errors=True)
    meta["sweep"] = rep
    json.dump(meta, open(os.path.join(d, "meta.json"), "w"), indent=1)
    return sid, prop, rep


dirs = sorted(x for x in glob.glob("/verif/seeded/*") if os.path.isdir(x) and (not only or os.path.basename(x) in only))
rows = []
with concurrent.futures.ThreadPoolExecutor(jobs) as ex:
    for sid, prop, rep in ex.map(evaluate, dirs):
        print(sid, rep.get("apply") or ("confirmed=%s detected_by=%s" % (rep.get("confirmed"), rep.get("detected_by"))), flush=True)
        rows.append((sid, prop, rep))

if not only:
    with open("/verif/seeded/INDEX.md", "w") as f:
        f.write("# Seeded changes (independent sub-agents), re-evaluated by tools/seed_sweep.py\n\n")
        f.write("Every change applies to /repo HEAD %s, passes the pinned suite, and its demo exits 1 with / 0 without it.\n" % head)
        f.write("`detected by` lists the %s checks that exit 1 with a VIOLATION line on the changed tree%s.\n\n" % (tier, "" if allprops else " (only the property's own check was run)"))
        f.write("| id | property | confirmed | detected by | first signature |\n|---|---|---|---|---|\n")
        for sid, prop, rep in rows:
            det = rep.get("detected_by", [])
            first = ""
            for p in det:
                if rep["checks"][p]["signatures"]:
                    first = rep["checks"][p]["signatures"][0]
                    break
            f.write("| %s | %s | %s | %s | `%s` |\n" % (sid, prop, rep.get("confirmed"), " ".join(det) or ("superseded (see meta.json)" if superseded(sid) else "**none**"),
                                                   first.replace("|", "\\|")))
bad = [sid for sid, prop, rep in rows if (not rep.get("confirmed") or prop not in rep.get("detected_by", [])) and not superseded(sid)]
print("seeds=%d not-confirmed-or-missed=%s" % (len(rows), bad))
sys.exit(1 if bad else 0)
